#!/bin/bash
# seed_check.sh <seed-dir-name> <PROP> [check args...]: apply a seeded patch to /repo, run the check, undo.
S=$1; P=$2; shift 2
cd /verif
git -C /repo apply /verif/seeded/$S/patch.diff || { echo "patch does not apply"; exit 2; }
./check $P --no-evidence "$@" > /tmp/seedcheck_$S.log 2>&1; rc=$?
git -C /repo checkout -- .
rm -rf /verif/evidence/replay
echo "== seed $S vs $P: exit=$rc"; grep -E "^VIOLATION|^KNOWN|^INCONCLUSIVE|obligations\(runs\)" /tmp/seedcheck_$S.log | cut -c1-220 | head -8
