#!/bin/bash
# seed_rescreen.sh <seed dir name under /verif/seeded> <worktree prop> <CHECK> [check args]: apply the kept patch in the scratch
# worktree /tmp/seed/<prop>, run ./check <CHECK> --repo <worktree>, undo.
S=$1; P=$2; C=$3; shift 3
WT=/tmp/seed/$P
git -C $WT checkout -q -- . ; git -C $WT apply /verif/seeded/$S/patch.diff || { echo "apply failed"; exit 2; }
cd /verif && ./check $C --tier quick --no-evidence --repo $WT --jobs 6 "$@" > /tmp/seedlog/$S.$C.re.log 2>&1; rc=$?
git -C $WT checkout -q -- .
echo "== $S vs $C $*: exit=$rc"; grep -E "^VIOLATION|^KNOWN|^INCONCLUSIVE" /tmp/seedlog/$S.$C.re.log | cut -c1-230 | head -5
rm -rf /verif/evidence/replay   # counterexamples of patched trees are not evidence
