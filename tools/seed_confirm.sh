#!/bin/bash
# seed_confirm.sh <PROP> <a|b> <demo pkg dir>   -- confirms a seeded patch in its scratch worktree and stores it under /verif/seeded
set -u
P=$1; V=$2; PKG=$3
WT=/tmp/seed/$P
export GOFLAGS=-mod=mod GOPROXY=off GOSUMDB=off GOTOOLCHAIN=local
cd $WT || exit 2
git checkout -q -- . ; rm -f $PKG/zz_seed_demo_*_test.go
OUT=/verif/seeded/$P-$V; mkdir -p $OUT
cp _seed/$V.diff $OUT/patch.diff; cp _seed/zz_seed_demo_${V}_test.go $OUT/
TESTNAME=$(grep -o 'func Test[A-Za-z0-9_]*' _seed/zz_seed_demo_${V}_test.go | head -1 | sed 's/func //')
# 1. demo passes on clean tree
cp _seed/zz_seed_demo_${V}_test.go $PKG/
go test -vet=off -count=1 -run "^$TESTNAME\$" ./$PKG > $OUT/demo_clean.log 2>&1; R_CLEAN=$?
rm -f $PKG/zz_seed_demo_${V}_test.go
# 2. patch applies, builds, suite passes
git apply _seed/$V.diff || { echo "apply failed"; exit 1; }
go build ./... > $OUT/build.log 2>&1; R_BUILD=$?
go test -vet=off -count=1 ./... > $OUT/suite_patched.log 2>&1; R_SUITE=$?
# 3. demo fails with patch
cp _seed/zz_seed_demo_${V}_test.go $PKG/
go test -vet=off -count=1 -run "^$TESTNAME\$" ./$PKG > $OUT/demo_patched.log 2>&1; R_PATCHED=$?
rm -f $PKG/zz_seed_demo_${V}_test.go
git checkout -q -- .
echo "$P-$V demo_clean=$R_CLEAN build=$R_BUILD suite_patched=$R_SUITE demo_patched=$R_PATCHED test=$TESTNAME pkg=$PKG" | tee $OUT/confirm.txt
