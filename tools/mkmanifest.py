import json
props=[json.loads(l) for l in open('/verif/properties.jsonl')]
ids=[p['id'] for p in props]
claimed=json.load(open('/verif/tools/claims.json'))
na_reasons=json.load(open('/verif/tools/not_applicable.json'))
checks=[]
for i in ids:
    if i in claimed:
        c=claimed[i]
        checks.append({"property_id":i,"quick_cmd":"./check %s --tier quick"%i,"thorough_cmd":"./check %s --tier thorough"%i,
          "evidence_file":"/verif/evidence/%s.json"%i,"replay_cmd_template":"./check %s --replay {path}"%i,"engine":"gosym",
          "level_claimed":{"category":"model_checking","text":c["text"],"design_ref":"DESIGN.md §"+c["design"]},
          "level_note":c["note"]+"; trusted: go/ssa lowering, the gosym interpreter and its library models (cross-checked by native replay of sample models and counterexamples), z3",
          "technique":"bounded symbolic execution of go/ssa + SMT (z3 bit-vectors), native replay of counterexamples"})
na=[{"property_id":i,"reason":na_reasons.get(i,"check not built yet (see DESIGN.md)")} for i in ids if i not in claimed]
m={"version":1,
 "setup_cmd":"cd /verif/engine && GOFLAGS=-mod=mod GOPROXY=off GOSUMDB=off GOTOOLCHAIN=local go build -o /verif/bin/gosym .",
 "hooks":{"guard":"verif","enable":"none: harnesses and seam-rewritten copies are injected with go/packages Overlay and go test -overlay; /repo is not edited by the machinery","baseline_off_cmd":"cd /repo && go test -vet=off -count=1 ./...","source_commits":[],"add_only":True},
 "engines":[{"name":"gosym","path":"/verif/engine","serves_properties":sorted(claimed),"kind_free_text":"bounded symbolic execution of go/ssa with SMT (z3/cvc5) path exploration and native counterexample replay"}],
 "checks":checks,"not_applicable":na,
 "notes":"fix: commits in /repo are recorded in /verif/known_findings.json; seeded changes used to test the checks are under /verif/seeded"}
json.dump(m,open('/verif/MANIFEST.json','w'),indent=1)
