import json,os
props=[json.loads(l) for l in open('/verif/properties.jsonl')]
ids=[p['id'] for p in props]
claimed={
 "C01":("Bounded symbolic model checking of the generator lemmas on the real code: address and port index arithmetic for every subnet / range (math/big interpreted), the ports x addresses combinators, for all values inside the stated bounds.","harness/specs/C01.json; iterator replaced by a seam inside IPs/Ports (its permutation property is C04); chunking and mode selection in command/ are listed as not yet covered in DESIGN.md","5-C01"),
 "C04":("Bounded symbolic model checking in layers on the real table and iterator code: group selection for every int64 n; per-row number theory (primality by solver over all divisor candidates, generator and coprimality from the certified factorisation); exhaustive permutation check of the real newRangeIterator/Next with math/big interpreted for every n of the small rows and every pair of random draws; concrete orbit check of the first steps on the large rows.","group-theory glue (generator + coprime exponent gives one full cycle; code is uniform in the row) is assumed, not solver-decided; exhaustive walks only for n <= 36 (quick) / 130 (thorough)","5-C04"),
 "C05":("Bounded symbolic model checking of the real Fill of the tcp/udp/icmp/arp fillers with gopacket's serialisers and checksum code interpreted; every field of the produced frame is compared with an RFC-layout reference for all flag sets, ports, addresses, MACs, option values, random draws and the listed payload lengths, both link modes.","payload lengths as listed; math/rand replaced by a seam returning any value of its contract; sums are normalised modulo associativity/commutativity by the engine before reaching the solver","5-C05"),
 "C06":("Bounded symbolic model checking of the real ProcessPacketData of the arp/tcp/icmp processors with the gopacket decoders interpreted: a valid reply followed by a frame whose every byte is a solver variable (listed lengths, cap==len), both link modes; panics, phantom records and record fields not taken from the same frame are violations.","frame lengths listed in the spec; outer IPv4 header length <= 6 (quick) / 7 (thorough) words; two-frame histories; decoder structs assumed to be the only cross-frame state","5-C06"),
 "C11":("Bounded symbolic model checking of the ARP-cache code: destination MAC choice for arbitrary addresses in both spellings with/without gateway, the cache loader on every file of <=3 lines over 8 line classes, and two readers plus a writer under every schedule with <=1/2 pre-emptions where every heap store is a pre-emption point (counterexamples confirmed under the Go race detector).","net.IP.String of a symbolic address modelled as an injective rendering; ARP-frame -> JSON -> loader round trip with symbolic addresses is not covered yet; pre-emption bound 1 (quick) / 2 (thorough)","5-C11"),
 "C13":("Bounded symbolic model checking of the real file generators, exclusion filter and ARP-cache stage on target files whose line classes and positions are solver variables (<=3 lines, 11 classes).","line spellings per class are fixed templates; files longer than 3 lines outside the bound","5-C13"),
 "C18":("Bounded symbolic model checking of every option parser on strings whose every byte is a solver variable (all strings up to length L) against reference readers, plus canonical-rendering round trips with symbolic digits / flag subsets.","strings longer than L (4..6 depending on the parser) outside the bound; stdlib strconv/strings/time.ParseDuration are interpreted from their SSA","5-C18"),
 "C20":("Bounded symbolic model checking of the real ReceivePackets loop over every sequence of <=3 (quick) / <=4 (thorough) read outcomes from 12 fault classes, processor failures, and cancellation during any read, under the engine's goroutine/select semantics.","bursts beyond the 100-slot error buffer and sequences longer than the bound are outside the claim; logical clock for the 5 ms back-off","5-C20"),
}
checks=[]
for i in ids:
    if i in claimed:
        t,n,d=claimed[i]
        checks.append({"property_id":i,"quick_cmd":"./check %s --tier quick"%i,"thorough_cmd":"./check %s --tier thorough"%i,
          "evidence_file":"/verif/evidence/%s.json"%i,"replay_cmd_template":"./check %s --replay {path}"%i,"engine":"gosym",
          "level_claimed":{"category":"model_checking","text":t,"design_ref":"DESIGN.md §"+d},
          "level_note":n+"; trusted: go/ssa lowering, the gosym interpreter and its library models (cross-checked by native replay of sample models and counterexamples), z3",
          "technique":"bounded symbolic execution of go/ssa + SMT (z3 bit-vectors), native replay of counterexamples"})
na=[{"property_id":i,"reason":"check not built yet (engine and harnesses under construction; see DESIGN.md)"} for i in ids if i not in claimed]
m={"version":1,
 "setup_cmd":"cd /verif/engine && GOFLAGS=-mod=mod GOPROXY=off GOSUMDB=off GOTOOLCHAIN=local go build -o /verif/bin/gosym .",
 "hooks":{"guard":"verif","enable":"none: harnesses and seam-rewritten copies are injected with go/packages Overlay and go test -overlay; /repo is not edited by the machinery","baseline_off_cmd":"cd /repo && go test -vet=off -count=1 ./...","source_commits":[],"add_only":True},
 "engines":[{"name":"gosym","path":"/verif/engine","serves_properties":sorted(claimed),"kind_free_text":"bounded symbolic execution of go/ssa with SMT (z3/cvc5) path exploration and native counterexample replay"}],
 "checks":checks,"not_applicable":na,
 "notes":"fix: commits in /repo recorded in /verif/known_findings.json"}
json.dump(m,open('/verif/MANIFEST.json','w'),indent=1)
