#!/bin/bash
# seed_round8.sh <PROP> [check-id ...]: confirm both round-8 seeds of a property in its scratch worktree
# (/tmp/seed/<PROP>), store them as /verif/seeded/R8<PROP>-{a,b}, then screen each with the given checks
# (default: the property's own check) using --repo <worktree with the patch applied>.
set -u
W=$1; shift; P=${W:0:3}; R=${ROUND:-R8}
CHECKS=${@:-$P}
WT=/tmp/seed/$W
export GOFLAGS=-mod=mod GOPROXY=off GOSUMDB=off GOTOOLCHAIN=local
mkdir -p /tmp/seedlog
for V in a b; do
  [ -f $WT/_seed/$V.diff ] || { echo "$R$W-$V: no diff"; continue; }
  PKG=$(grep -m1 '^pkg:' $WT/_seed/$V.txt | sed 's/^pkg: *//; s/ *$//; s#/$##')
  cd $WT && git checkout -q -- . && rm -f $PKG/zz_seed_demo_*_test.go
  OUT=/verif/seeded/$R$W-$V; mkdir -p $OUT
  cp _seed/$V.diff $OUT/patch.diff; cp _seed/zz_seed_demo_${V}_test.go $OUT/; cp _seed/$V.txt $OUT/notes.txt
  TESTNAME=$(grep -o 'func Test[A-Za-z0-9_]*' _seed/zz_seed_demo_${V}_test.go | head -1 | sed 's/func //')
  cp _seed/zz_seed_demo_${V}_test.go $PKG/
  timeout 300 go test -vet=off -count=1 -run "^$TESTNAME\$" ./$PKG > $OUT/demo_clean.log 2>&1; R_CLEAN=$?
  rm -f $PKG/zz_seed_demo_${V}_test.go
  git apply _seed/$V.diff || { echo "$R$W-$V apply failed" | tee $OUT/confirm.txt; continue; }
  go build ./... > $OUT/build.log 2>&1; R_BUILD=$?
  timeout 900 go test -vet=off -count=1 ./... > $OUT/suite_patched.log 2>&1; R_SUITE=$?
  cp _seed/zz_seed_demo_${V}_test.go $PKG/
  timeout 300 go test -vet=off -count=1 -run "^$TESTNAME\$" ./$PKG > $OUT/demo_patched.log 2>&1; R_PATCHED=$?
  rm -f $PKG/zz_seed_demo_${V}_test.go
  echo "$R$W-$V demo_clean=$R_CLEAN build=$R_BUILD suite_patched=$R_SUITE demo_patched=$R_PATCHED test=$TESTNAME pkg=$PKG" | tee $OUT/confirm.txt
  # screening with the patch still applied
  for C in $CHECKS; do
    [ -f /verif/harness/specs/$C.json ] || continue
    (cd /verif && ./check $C --tier quick --no-evidence --repo $WT --jobs 6 > /tmp/seedlog/$R$W-$V.$C.log 2>&1; echo "$R$W-$V screen $C exit=$?"; grep -E "^VIOLATION|^KNOWN|^INCONCLUSIVE" /tmp/seedlog/$R$W-$V.$C.log | cut -c1-250 | head -6)
  done
  cd $WT && git checkout -q -- .
done
rm -rf /verif/evidence/replay   # counterexamples of patched trees are not evidence
