#!/usr/bin/env python3
# share_obl.py <FROM.id> <TO.newid> [quick-json-override]: copy an obligation into another property's spec
import json,sys
src,dst=sys.argv[1],sys.argv[2]
sp,dp=src.split('.')[0],dst.split('.')[0]
s=json.load(open(f'/verif/harness/specs/{sp}.json'))
d=json.load(open(f'/verif/harness/specs/{dp}.json'))
o=[x for x in s['obligations'] if x['id']==src][0]
e=json.loads(json.dumps(o)); e['id']=dst
if not e['bound'].startswith('(shared'):
    e['bound']=f'(shared with {sp}: {src}) '+e['bound']
if len(sys.argv)>3:
    e['quick']=json.loads(sys.argv[3]); e['thorough']=json.loads(sys.argv[3])
d['obligations']=[x for x in d['obligations'] if x['id']!=dst]+[e]
json.dump(d,open(f'/verif/harness/specs/{dp}.json','w'),indent=1)
print('shared',src,'->',dst)
