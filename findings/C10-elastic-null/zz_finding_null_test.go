package elastic

import (
	"context"
	"net"
	"net/http"
	"net/http/httptest"
	"strconv"
	"testing"
	"time"

	"github.com/v-byte-cpu/sx/pkg/scan"
)

// An endpoint answering GET / with the JSON value null serves no JSON object and must not be reported
// (found by C10.elasticTwo / C10.elastic; reproduced here through real net/http on loopback).
func TestFindingElasticNullBody(t *testing.T) {
	srv := httptest.NewServer(http.HandlerFunc(func(w http.ResponseWriter, r *http.Request) { w.Write([]byte("null")) }))
	defer srv.Close()
	host, p, _ := net.SplitHostPort(srv.Listener.Addr().String())
	port, _ := strconv.Atoi(p)
	res, err := NewScanner("http", WithDataTimeout(2*time.Second)).Scan(context.Background(),
		&scan.Request{DstIP: net.ParseIP(host), DstPort: uint16(port)})
	if res != nil || err == nil {
		t.Fatalf("endpoint serving `null` was reported: res=%v err=%v", res, err)
	}
}
