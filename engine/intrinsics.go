package main

// Engine-native models of functions that cannot be interpreted from SSA
// (no body, runtime internals, reflection) plus the harness primitives.
// Every model used by a run is listed in the evidence.

import (
	"fmt"
	"go/types"
	"math"
	"net"
	"strings"

	"golang.org/x/tools/go/ssa"
)

type intrinsic func(fr *frame, args []value) value

var intrinsics = map[string]intrinsic{}

// intrinsicsBySuffix match harness primitives declared in any package.
var harnessPrims = map[string]intrinsic{}

var modelsUsed = map[string]int{}

var uniqueHandles = map[string]*value{}

var globalOverrides = map[string]func(i *interpreter, pkg *ssa.Package){}

// realIPString (run parameter REAL_IPSTRING=1): interpret the real net.IP.String instead of the
// opaque injective rendering, for obligations that need the decimal text itself (C11 round trip).
var realIPString bool

func findIntrinsic(fn *ssa.Function, name string) intrinsic {
	if realIPString && name == "(net.IP).String" {
		return nil
	}
	if !monoTime && name == "(time.Time).Add" {
		return nil
	}
	if in, ok := intrinsics[name]; ok {
		if fn.Pkg == nil || !isHarnessPrimName(fn.Name()) {
			modelsUsed[name]++
		}
		return in
	}
	if fn.Pkg != nil && fn.Signature.Recv() == nil {
		if in, ok := harnessPrims[fn.Name()]; ok {
			return in
		}
	}
	// generic instantiations: match on origin
	if o := fn.Origin(); o != nil && o != fn {
		if in, ok := intrinsics[o.String()]; ok {
			modelsUsed[o.String()]++
			return in
		}
	}
	return nil
}

func isHarnessPrimName(n string) bool { _, ok := harnessPrims[n]; return ok }

func ret0(fr *frame, args []value) value { return nil }

func argStr(v value) string {
	switch s := v.(type) {
	case string:
		return s
	case *symstr:
		// concretise every byte (bounded forking)
		buf := make([]byte, len(s.b))
		for i, b := range s.b {
			switch b := b.(type) {
			case cint:
				buf[i] = byte(b)
			case *Term:
				buf[i] = byte(curExec().concretize(b, "str-byte"))
			}
		}
		return string(buf)
	}
	panic(unsupported(fmt.Sprintf("string argument is %T", v)))
}

func concreteStr(v value) (string, bool) {
	s, ok := v.(string)
	return s, ok
}

func goBytes(v value) ([]byte, bool) {
	s, ok := v.([]value)
	if !ok {
		return nil, false
	}
	out := make([]byte, len(s))
	for i, b := range s {
		c, ok := b.(cint)
		if !ok {
			return nil, false
		}
		out[i] = byte(c)
	}
	return out, true
}

func fromGoBytes(b []byte) []value {
	if b == nil {
		return nil
	}
	out := make([]value, len(b))
	for i, x := range b {
		out[i] = cint(x)
	}
	return out
}

// callValue calls an interpreted function value.
func callValue(fr *frame, fn value, args ...value) value {
	return call(fr.i, fr, 0, fn, args, nil)
}

// callMethod invokes method name on an interface value (nil if absent).
func findMethod(fr *frame, x iface, name string) *ssa.Function {
	if x.t == nil || x.t == tRuntimeError {
		return nil
	}
	ms := fr.i.prog.MethodSets.MethodSet(x.t)
	for k := 0; k < ms.Len(); k++ {
		sel := ms.At(k)
		if sel.Obj().Name() == name {
			return fr.i.prog.MethodValue(sel)
		}
	}
	return nil
}

func errorString(fr *frame, e value) string {
	x, ok := e.(iface)
	if !ok || x.t == nil {
		return "<nil>"
	}
	if x.t == tRuntimeError {
		return x.v.(string)
	}
	if m := findMethod(fr, x, "Error"); m != nil {
		r := callValue(fr, m, x.v)
		if s, ok := r.(string); ok {
			return s
		}
		return "<symbolic error text>"
	}
	return "<error>"
}

func namedType(prog *ssa.Program, pkg, name string) types.Type {
	p := prog.ImportedPackage(pkg)
	if p == nil {
		return nil
	}
	m := p.Type(name)
	if m == nil {
		return nil
	}
	return m.Type()
}

func init() {
	// ---- harness primitives ----
	nd := func(w int) intrinsic {
		return func(fr *frame, args []value) value {
			return curExec().fresh(argStr(args[0]), w)
		}
	}
	harnessPrims["ndU8"] = nd(8)
	harnessPrims["ndU16"] = nd(16)
	harnessPrims["ndU32"] = nd(32)
	harnessPrims["ndU64"] = nd(64)
	harnessPrims["ndInt"] = nd(64)
	harnessPrims["ndBool"] = nd(0)
	harnessPrims["ndBytes"] = func(fr *frame, args []value) value {
		label := argStr(args[0])
		n := int(asInt64(args[1]))
		out := make([]value, n)
		for i := range out {
			out[i] = curExec().fresh(fmt.Sprintf("%s[%d]", label, i), 8)
		}
		return out
	}
	harnessPrims["verifAssume"] = func(fr *frame, args []value) value {
		curExec().assume(args[0])
		return nil
	}
	harnessPrims["verifAssert"] = func(fr *frame, args []value) value {
		where := ""
		if fr.caller != nil && fr.caller.fn != nil {
			where = fr.caller.fn.Name()
		}
		curExec().assert(args[0], argStr(args[1]), where)
		return nil
	}
	harnessPrims["verifCover"] = func(fr *frame, args []value) value {
		curExec().cover(argStr(args[0]))
		return nil
	}
	harnessPrims["verifKnown"] = func(fr *frame, args []value) value {
		id := argStr(args[0])
		c := asBool(args[1], "known-region")
		if c {
			curExec().known = id
		}
		return c
	}
	harnessPrims["verifSymbolic"] = func(fr *frame, args []value) value {
		return curExec().concrete == nil
	}
	harnessPrims["verifObserve"] = func(fr *frame, args []value) value {
		ex := curExec()
		if ex.concrete != nil {
			ex.observed = append(ex.observed, argStr(args[0])+"="+toString(args[1]))
		}
		return nil
	}
	harnessPrims["verifNow"] = func(fr *frame, args []value) value {
		return cint(theSched.now)
	}
	// verifConcretize(x uint64) uint64: enumerate values (bounded forking)
	harnessPrims["verifConcretize"] = func(fr *frame, args []value) value {
		if t, ok := args[0].(*Term); ok {
			return cint(curExec().concretize(t, "harness"))
		}
		return args[0]
	}
	// verifIte(c bool, a, b uint64) uint64 without forking
	harnessPrims["verifIte"] = func(fr *frame, args []value) value {
		c := toBoolTerm(args[0])
		return fromTerm(mkIte(c, toTerm(args[1], 64), toTerm(args[2], 64)), false)
	}
	// verifAnd / verifOr / verifImplies: Boolean connectives without forking
	harnessPrims["verifAnd"] = func(fr *frame, args []value) value {
		return fromTerm(mkBAnd(toBoolTerm(args[0]), toBoolTerm(args[1])), false)
	}
	harnessPrims["verifOr"] = func(fr *frame, args []value) value {
		return fromTerm(mkBOr(toBoolTerm(args[0]), toBoolTerm(args[1])), false)
	}
	harnessPrims["verifImplies"] = func(fr *frame, args []value) value {
		return fromTerm(mkBOr(mkBNot(toBoolTerm(args[0])), toBoolTerm(args[1])), false)
	}
	harnessPrims["verifYield"] = func(fr *frame, args []value) value {
		if fr.g != nil && len(theSched.runq) > 0 {
			theSched.yield(fr.g)
		}
		return nil
	}

	// ---- sync ----
	intrinsics["(*sync.Mutex).Lock"] = func(fr *frame, a []value) value { mutexLock(fr, a[0].(*value)); return nil }
	intrinsics["(*sync.Mutex).Unlock"] = func(fr *frame, a []value) value { mutexUnlock(fr, a[0].(*value)); return nil }
	intrinsics["(*sync.Mutex).TryLock"] = func(fr *frame, a []value) value {
		m := theSched.mutex(a[0].(*value))
		if m.locked || m.readers > 0 {
			return false
		}
		m.locked = true
		return true
	}
	intrinsics["(*sync.RWMutex).Lock"] = intrinsics["(*sync.Mutex).Lock"]
	intrinsics["(*sync.RWMutex).Unlock"] = intrinsics["(*sync.Mutex).Unlock"]
	intrinsics["(*sync.RWMutex).RLock"] = func(fr *frame, a []value) value { mutexRLock(fr, a[0].(*value)); return nil }
	intrinsics["(*sync.RWMutex).RUnlock"] = func(fr *frame, a []value) value { mutexRUnlock(fr, a[0].(*value)); return nil }
	intrinsics["(*sync.WaitGroup).Add"] = func(fr *frame, a []value) value {
		wgAdd(fr, a[0].(*value), int64(a[1].(cint)))
		return nil
	}
	intrinsics["(*sync.WaitGroup).Done"] = func(fr *frame, a []value) value { wgAdd(fr, a[0].(*value), -1); return nil }
	intrinsics["(*sync.WaitGroup).Wait"] = func(fr *frame, a []value) value { wgWait(fr, a[0].(*value)); return nil }
	intrinsics["(*sync.Pool).Get"] = func(fr *frame, a []value) value {
		p := a[0].(*value)
		ps := theSched.pool(p)
		if n := len(ps.free); n > 0 {
			v := ps.free[n-1]
			ps.free = ps.free[:n-1]
			return v
		}
		// p.New
		st := (*p).(structure)
		newFn := st[len(st)-1]
		switch f := newFn.(type) {
		case *ssa.Function:
			if f == nil {
				return iface{}
			}
		}
		return callValue(fr, newFn)
	}
	intrinsics["(*sync.Pool).Put"] = func(fr *frame, a []value) value {
		ps := theSched.pool(a[0].(*value))
		if x, ok := a[1].(iface); ok && x.t == nil {
			return nil
		}
		ps.free = append(ps.free, a[1])
		return nil
	}

	// ---- sync/atomic ----
	for _, ty := range []string{"Int32", "Int64", "Uint32", "Uint64", "Uintptr"} {
		ty := ty
		w := 64
		signed := strings.HasPrefix(ty, "Int")
		if strings.HasSuffix(ty, "32") {
			w = 32
		}
		intrinsics["sync/atomic.Load"+ty] = func(fr *frame, a []value) value { return *(a[0].(*value)) }
		intrinsics["sync/atomic.Store"+ty] = func(fr *frame, a []value) value { setCell(a[0].(*value), a[1]); return nil }
		intrinsics["sync/atomic.Swap"+ty] = func(fr *frame, a []value) value {
			p := a[0].(*value)
			old := *p
			setCell(p, a[1])
			return old
		}
		intrinsics["sync/atomic.Add"+ty] = func(fr *frame, a []value) value {
			p := a[0].(*value)
			var r value
			if x, ok := (*p).(cint); ok {
				if y, ok := a[1].(cint); ok {
					r = norm(uint64(x)+uint64(y), w, signed)
				}
			}
			if r == nil {
				r = fromTerm(mkBin(OpAdd, toTerm(*p, w), toTerm(a[1], w)), signed)
			}
			setCell(p, r)
			return r
		}
		intrinsics["sync/atomic.CompareAndSwap"+ty] = func(fr *frame, a []value) value {
			p := a[0].(*value)
			if asBool(fromTerm(eqTerm(nil, *p, a[1]), false), "cas") {
				setCell(p, a[2])
				return true
			}
			return false
		}
	}
	intrinsics["sync/atomic.LoadPointer"] = func(fr *frame, a []value) value { return *(a[0].(*value)) }
	intrinsics["sync/atomic.StorePointer"] = func(fr *frame, a []value) value { setCell(a[0].(*value), a[1]); return nil }
	intrinsics["sync/atomic.SwapPointer"] = intrinsics["sync/atomic.SwapInt64"]
	intrinsics["sync/atomic.CompareAndSwapPointer"] = func(fr *frame, a []value) value {
		p := a[0].(*value)
		if *p == a[1] {
			setCell(p, a[2])
			return true
		}
		return false
	}
	// atomic.Value: the interface is kept in field 0
	intrinsics["(*sync/atomic.Value).Load"] = func(fr *frame, a []value) value {
		st := (*a[0].(*value)).(structure)
		return st[0]
	}
	intrinsics["(*sync/atomic.Value).Store"] = func(fr *frame, a []value) value {
		st := (*a[0].(*value)).(structure)
		setCell(&st[0], a[1])
		return nil
	}
	intrinsics["(*sync/atomic.Value).Swap"] = func(fr *frame, a []value) value {
		st := (*a[0].(*value)).(structure)
		old := st[0]
		setCell(&st[0], a[1])
		return old
	}
	intrinsics["(*sync/atomic.Value).CompareAndSwap"] = func(fr *frame, a []value) value {
		st := (*a[0].(*value)).(structure)
		if eqTerm(nil, st[0], a[1]) == tTrue {
			setCell(&st[0], a[2])
			return true
		}
		return false
	}

	// ---- runtime / misc ----
	for _, n := range []string{"runtime.Gosched", "runtime.KeepAlive", "runtime.SetFinalizer", "runtime.GC",
		"(*strings.Builder).copyCheck", "internal/race.Acquire", "internal/race.Release", "internal/race.ReleaseMerge",
		"internal/race.Disable", "internal/race.Enable", "internal/race.Read", "internal/race.Write",
		"internal/race.ReadRange", "internal/race.WriteRange", "sync.runtime_registerPoolCleanup",
		"sync.fatal", "sync.throw", "os.runtime_args", "internal/godebug.registerMetric", "internal/godebug.setUpdate",
		"internal/godebug.setNewIncNonDefault"} {
		intrinsics[n] = ret0
	}
	intrinsics["runtime.GOMAXPROCS"] = func(fr *frame, a []value) value { return cint(16) }
	intrinsics["runtime.NumCPU"] = func(fr *frame, a []value) value { return cint(16) }
	intrinsics["internal/abi.NoEscape"] = func(fr *frame, a []value) value { return a[0] }
	intrinsics["internal/abi.Escape"] = func(fr *frame, a []value) value { return a[0] }
	intrinsics["internal/bytealg.MakeNoZero"] = func(fr *frame, a []value) value {
		n := int(asInt64(a[0]))
		s := make([]value, n)
		for i := range s {
			s[i] = cint(0)
		}
		return s
	}
	intrinsics["internal/godebug.(*Setting).Value"] = func(fr *frame, a []value) value { return "" }
	intrinsics["(*internal/godebug.Setting).Value"] = func(fr *frame, a []value) value { return "" }
	intrinsics["(*internal/godebug.Setting).IncNonDefault"] = ret0
	intrinsics["os.Getenv"] = func(fr *frame, a []value) value { return "" }
	intrinsics["syscall.Getenv"] = func(fr *frame, a []value) value { return tuple{"", false} }

	// ---- internal/bytealg ----
	indexByte := func(b []value, c value) value {
		ex := curExec()
		for i, x := range b {
			e := eqTerm(nil, x, c)
			if e == tTrue || (e != tFalse && ex.decide(e, "indexbyte")) {
				return cint(i)
			}
		}
		return norm(^uint64(0), 64, true)
	}
	intrinsics["internal/bytealg.IndexByte"] = func(fr *frame, a []value) value { return indexByte(a[0].([]value), a[1]) }
	intrinsics["internal/bytealg.IndexByteString"] = func(fr *frame, a []value) value { return indexByte(strBytes(a[0]), a[1]) }
	lastIndexByte := func(b []value, c value) value {
		ex := curExec()
		for i := len(b) - 1; i >= 0; i-- {
			e := eqTerm(nil, b[i], c)
			if e == tTrue || (e != tFalse && ex.decide(e, "lastindexbyte")) {
				return cint(i)
			}
		}
		return norm(^uint64(0), 64, true)
	}
	intrinsics["internal/bytealg.LastIndexByte"] = func(fr *frame, a []value) value { return lastIndexByte(a[0].([]value), a[1]) }
	intrinsics["internal/bytealg.LastIndexByteString"] = func(fr *frame, a []value) value { return lastIndexByte(strBytes(a[0]), a[1]) }
	count := func(b []value, c value) value {
		ex := curExec()
		n := 0
		for _, x := range b {
			e := eqTerm(nil, x, c)
			if e == tTrue || (e != tFalse && ex.decide(e, "countbyte")) {
				n++
			}
		}
		return cint(n)
	}
	intrinsics["internal/bytealg.Count"] = func(fr *frame, a []value) value { return count(a[0].([]value), a[1]) }
	intrinsics["internal/bytealg.CountString"] = func(fr *frame, a []value) value { return count(strBytes(a[0]), a[1]) }
	intrinsics["internal/bytealg.Equal"] = func(fr *frame, a []value) value {
		return fromTerm(strEqTerm(mkStr(a[0].([]value)), mkStr(a[1].([]value))), false)
	}
	intrinsics["bytes.Equal"] = intrinsics["internal/bytealg.Equal"]
	intrinsics["internal/bytealg.Compare"] = func(fr *frame, a []value) value {
		return norm(uint64(int64(strCompare(mkStr(a[0].([]value)), mkStr(a[1].([]value))))), 64, true)
	}
	intrinsics["bytes.Compare"] = intrinsics["internal/bytealg.Compare"]
	intrinsics["strings.Compare"] = func(fr *frame, a []value) value {
		return norm(uint64(int64(strCompare(a[0], a[1]))), 64, true)
	}
	intrinsics["internal/stringslite.Compare"] = intrinsics["strings.Compare"]
	index := func(s, sep []value) value {
		ex := curExec()
		for i := 0; i+len(sep) <= len(s); i++ {
			e := strEqTerm(mkStr(s[i:i+len(sep)]), mkStr(sep))
			if e == tTrue || (e != tFalse && ex.decide(e, "index")) {
				return cint(i)
			}
		}
		return norm(^uint64(0), 64, true)
	}
	intrinsics["internal/bytealg.Index"] = func(fr *frame, a []value) value { return index(a[0].([]value), a[1].([]value)) }
	intrinsics["internal/bytealg.IndexString"] = func(fr *frame, a []value) value { return index(strBytes(a[0]), strBytes(a[1])) }
	intrinsics["strings.Index"] = intrinsics["internal/bytealg.IndexString"]
	intrinsics["internal/stringslite.Index"] = intrinsics["internal/bytealg.IndexString"]
	intrinsics["bytes.Index"] = intrinsics["internal/bytealg.Index"]
	intrinsics["strings.IndexByte"] = intrinsics["internal/bytealg.IndexByteString"]
	intrinsics["internal/stringslite.IndexByte"] = intrinsics["internal/bytealg.IndexByteString"]
	intrinsics["bytes.IndexByte"] = intrinsics["internal/bytealg.IndexByte"]

	// ---- error-message formatting that would fork on every input byte ----
	intrinsics["time.quote"] = func(fr *frame, a []value) value { return "\"<input>\"" }

	// ---- math (concrete floats only) ----
	f1 := func(name string, f func(float64) float64) {
		intrinsics[name] = func(fr *frame, a []value) value { return f(a[0].(float64)) }
	}
	f2 := func(name string, f func(float64, float64) float64) {
		intrinsics[name] = func(fr *frame, a []value) value { return f(a[0].(float64), a[1].(float64)) }
	}
	f2("math.archMax", math.Max)
	f2("math.archMin", math.Min)
	f2("math.Max", math.Max)
	f2("math.Min", math.Min)
	f1("math.archFloor", math.Floor)
	f1("math.archCeil", math.Ceil)
	f1("math.archTrunc", math.Trunc)
	f1("math.archSqrt", math.Sqrt)
	f1("math.Sqrt", math.Sqrt)
	f1("math.archLog", math.Log)
	f1("math.archExp", math.Exp)
	f1("math.Floor", math.Floor)
	f1("math.Ceil", math.Ceil)
	f1("math.Abs", math.Abs)
	f1("math.Log2", math.Log2)
	f2("math.Pow", math.Pow)
	intrinsics["math.Float64bits"] = func(fr *frame, a []value) value { return cint(math.Float64bits(a[0].(float64))) }
	intrinsics["math.Float64frombits"] = func(fr *frame, a []value) value {
		return math.Float64frombits(uint64(asInt64(a[0])))
	}
	intrinsics["math.Float32bits"] = func(fr *frame, a []value) value {
		return cint(math.Float32bits(float32(a[0].(float64))))
	}
	intrinsics["math.Float32frombits"] = func(fr *frame, a []value) value {
		return float64(math.Float32frombits(uint32(asInt64(a[0]))))
	}

	// ---- encoding/binary.Read into a pointer to a fixed-size struct of integers ----
	intrinsics["encoding/binary.Read"] = func(fr *frame, a []value) value {
		data := a[2].(iface)
		pt, ok := data.t.Underlying().(*types.Pointer)
		if !ok {
			panic(unsupported("binary.Read into " + data.t.String()))
		}
		st, ok := pt.Elem().Underlying().(*types.Struct)
		if !ok {
			panic(unsupported("binary.Read into " + data.t.String()))
		}
		size := 0
		var widths []int
		for i := 0; i < st.NumFields(); i++ {
			w, _, isInt := intInfo(st.Field(i).Type())
			if !isInt {
				panic(unsupported("binary.Read: field type " + st.Field(i).Type().String()))
			}
			widths = append(widths, w/8)
			size += w / 8
		}
		big := true
		if o, ok := a[1].(iface); ok && o.t != nil && strings.Contains(o.t.String(), "little") {
			big = false
		}
		buf := make([]value, size)
		for i := range buf {
			buf[i] = cint(0)
		}
		modelsUsed["encoding/binary.Read(fixed-size struct) via io.ReadFull"]++
		readFull := fr.i.prog.ImportedPackage("io").Func("ReadFull")
		res := callSSA(fr.i, fr, 0, readFull, []value{a[0], buf}, nil).(tuple)
		if e, ok := res[1].(iface); ok && e.t != nil {
			return e
		}
		cell := data.v.(*value)
		fields := (*cell).(structure)
		off := 0
		for i, nb := range widths {
			t := toTerm(buf[off], 8)
			for k := 1; k < nb; k++ {
				if big {
					t = mkConcat(t, toTerm(buf[off+k], 8))
				} else {
					t = mkConcat(toTerm(buf[off+k], 8), t)
				}
			}
			_, signed, _ := intInfo(st.Field(i).Type())
			setCell(&fields[i], fromTerm(t, signed))
			off += nb
		}
		return iface{}
	}

	// ---- math/rand (when not replaced by a seam): a fixed draw; randomness is never the subject here ----
	intrinsics["math/rand.Int63"] = func(fr *frame, a []value) value { return cint(0x1234567) }
	intrinsics["math/rand.Uint32"] = func(fr *frame, a []value) value { return cint(0x89abcdef) }
	intrinsics["math/rand.Intn"] = func(fr *frame, a []value) value { return cint(uint64(asInt64(a[0])) / 2) }
	intrinsics["math/rand.Seed"] = ret0
	intrinsics["math/rand.Read"] = func(fr *frame, a []value) value {
		p := a[0].([]value)
		for i := range p {
			setCell(&p[i], cint(byte(37*i+11)))
		}
		return tuple{cint(len(p)), iface{}}
	}

	// ---- the AF_PACKET socket wrapper of /repo (environment: a socket cannot be opened here) ----
	intrinsics["(*github.com/v-byte-cpu/sx/pkg/packet/afpacket.Source).SetBPFFilter"] = func(fr *frame, a []value) value { return iface{} }
	intrinsics["(*github.com/v-byte-cpu/sx/pkg/packet/afpacket.Source).Close"] = ret0

	// ---- easyjson unsafe casts ----
	intrinsics["github.com/mailru/easyjson/jlexer.bytesToStr"] = func(fr *frame, a []value) value {
		return bytesToString(a[0].([]value))
	}

	// ---- math/big: modular exponentiation with a symbolic exponent ----
	// x^y mod m for concrete x, m and a solver-chosen exponent y >= 1 whose domain spans at
	// least m consecutive values: the result ranges exactly over the orbit {x^k mod m : k>=1}.
	// The path forks over the orbit; each branch pins y to the first exponent k that yields
	// the element (every other exponent with the same residue behaves identically afterwards,
	// because callers use only the result), so a counterexample replays natively.
	intrinsics["(*math/big.Int).Exp"] = func(fr *frame, a []value) value {
		word := func(v value) (value, bool) { // single-word non-negative big.Int -> its word
			p, ok := v.(*value)
			if !ok || p == nil {
				return nil, false
			}
			st := (*p).(structure)
			if nb, _ := st[0].(bool); nb {
				return nil, false
			}
			abs, _ := st[1].([]value)
			switch len(abs) {
			case 0:
				return cint(0), true
			case 1:
				return abs[0], true
			}
			return nil, false
		}
		xv, ok1 := word(a[1])
		yv, ok2 := word(a[2])
		mv, ok3 := word(a[3])
		yt, sym := yv.(*Term)
		if !ok1 || !ok2 || !ok3 || !sym {
			return notHandled{}
		}
		xc, okx := xv.(cint)
		mc, okm := mv.(cint)
		if !okx || !okm || uint64(mc) < 2 || uint64(mc) > 1<<20 {
			panic(unsupported("big.Int.Exp with symbolic exponent: base/modulus not concrete or modulus too large"))
		}
		modelsUsed["big.Int.Exp(symbolic exponent) as fork over the orbit of the base"]++
		m := uint64(mc)
		x := uint64(xc) % m
		var orbit []uint64
		seen := map[uint64]bool{}
		for v := x; !seen[v]; v = v * x % m {
			seen[v] = true
			orbit = append(orbit, v)
		}
		ex := curExec()
		k := 0
		if ex.concrete != nil {
			// concrete mode: compute directly
			y := evalTerm(yt, ex.concrete, map[*Term]uint64{})
			r := uint64(1)
			b := x
			for e := y; e > 0; e >>= 1 {
				if e&1 == 1 {
					r = r * b % m
				}
				b = b * b % m
			}
			for i, v := range orbit {
				if v == r {
					k = i
				}
			}
		} else {
			k = ex.choose(len(orbit), "exp-orbit")
			ex.assume(mkEq(yt, mkConst(uint64(k+1), yt.w)))
		}
		// store the result in z
		z := a[0].(*value)
		zs := (*z).(structure)
		setCell(&zs[0], false)
		if orbit[k] == 0 {
			setCell(&zs[1], []value{})
		} else {
			setCell(&zs[1], []value{cint(orbit[k])})
		}
		return z
	}

	// ---- math/big assembly kernels: use the portable versions ----
	for _, k := range []string{"addVV", "subVV", "addVW", "subVW", "shlVU", "shrVU", "mulAddVWW", "addMulVVW"} {
		k := k
		intrinsics["math/big."+k] = func(fr *frame, a []value) value {
			g := fr.i.prog.ImportedPackage("math/big").Func(k + "_g")
			return callSSA(fr.i, fr, 0, g, a, nil)
		}
	}

	// ---- context.WithValue: the comparability test of the key goes through reflectlite; build the
	// valueCtx directly (parent and key must be non-nil as in the library) ----
	intrinsics["context.WithValue"] = func(fr *frame, a []value) value {
		parent, key := a[0].(iface), a[1].(iface)
		if parent.t == nil {
			panic(targetPanic{v: iface{t: types.Typ[types.String], v: "cannot create context from nil parent"}})
		}
		if key.t == nil {
			panic(targetPanic{v: iface{t: types.Typ[types.String], v: "nil key"}})
		}
		if !types.Comparable(key.t) {
			panic(targetPanic{v: iface{t: types.Typ[types.String], v: "key is not comparable"}})
		}
		modelsUsed["context.WithValue (valueCtx built directly)"]++
		T := namedType(fr.i.prog, "context", "valueCtx")
		var cell value = structure{parent, key, a[2]}
		return iface{t: types.NewPointer(T), v: &cell}
	}

	// ---- sort.Slice / sort.SliceStable: a stable insertion sort calling the real less closure
	// (the library version swaps through reflectlite; any correct sort is within the contract) ----
	sortSlice := func(fr *frame, a []value) value {
		x := a[0].(iface)
		s, ok := x.v.([]value)
		if !ok {
			panic(unsupported("sort.Slice of a non-slice"))
		}
		modelsUsed["sort.Slice as insertion sort over the real less function"]++
		for i := 1; i < len(s); i++ {
			for j := i; j > 0; j-- {
				if !asBool(callValue(fr, a[1], cint(int64(j)), cint(int64(j-1))), "sort.less") {
					break
				}
				tmp := copyVal(s[j])
				setCell(&s[j], copyVal(s[j-1]))
				setCell(&s[j-1], tmp)
			}
		}
		return nil
	}
	intrinsics["sort.Slice"] = sortSlice
	intrinsics["sort.SliceStable"] = sortSlice

	// ---- errors ----
	intrinsics["errors.Is"] = func(fr *frame, a []value) value {
		return errorsIs(fr, a[0].(iface), a[1].(iface))
	}
	intrinsics["errors.As"] = func(fr *frame, a []value) value {
		return errorsAs(fr, a[0].(iface), a[1].(iface))
	}
	intrinsics["internal/reflectlite.TypeOf"] = func(fr *frame, a []value) value {
		if fr.i.initing > 0 {
			return iface{} // package initialisers only stash the type; errors.As is modelled
		}
		panic(unsupported("reflectlite.TypeOf"))
	}

	// ---- fmt ----
	intrinsics["fmt.Sprintf"] = func(fr *frame, a []value) value {
		s, _ := formatArgs(fr, argStr(a[0]), a[1].([]value))
		return s
	}
	intrinsics["fmt.Errorf"] = func(fr *frame, a []value) value {
		format := argStr(a[0])
		args := a[1].([]value)
		msg, _ := formatArgs(fr, format, args)
		// %w wrapping
		var wrapped []value
		vi := 0
		for i := 0; i < len(format); i++ {
			if format[i] != '%' {
				continue
			}
			i++
			for i < len(format) && strings.IndexByte("+-# 0123456789.", format[i]) >= 0 {
				i++
			}
			if i >= len(format) {
				break
			}
			if format[i] == '%' {
				continue
			}
			if format[i] == 'w' && vi < len(args) {
				wrapped = append(wrapped, args[vi])
			}
			vi++
		}
		if len(wrapped) == 1 {
			if e, ok := wrapped[0].(iface); ok && e.t != nil {
				T := namedType(fr.i.prog, "fmt", "wrapError")
				var cell value = structure{msg, e}
				return iface{t: types.NewPointer(T), v: &cell}
			}
		}
		T := namedType(fr.i.prog, "fmt", "wrapError")
		var cell value = structure{msg, iface{}}
		_ = T
		Te := namedType(fr.i.prog, "errors", "errorString")
		cell = structure{msg}
		return iface{t: types.NewPointer(Te), v: &cell}
	}
	intrinsics["fmt.Sprint"] = func(fr *frame, a []value) value {
		var sb strings.Builder
		for _, x := range a[0].([]value) {
			sb.WriteString(formatOne(fr, 'v', "", x))
		}
		return sb.String()
	}
	intrinsics["fmt.Sprintln"] = func(fr *frame, a []value) value {
		var parts []string
		for _, x := range a[0].([]value) {
			parts = append(parts, formatOne(fr, 'v', "", x))
		}
		return strings.Join(parts, " ") + "\n"
	}
	for _, n := range []string{"fmt.Println", "fmt.Printf", "fmt.Print"} {
		n := n
		intrinsics[n] = func(fr *frame, a []value) value {
			return tuple{cint(0), iface{}}
		}
	}
	// fmt.Fprint*: render (symbolic strings and byte slices are spliced in for %s / %v) and
	// hand the bytes to the writer's real Write method in one call, as fmt does.
	fwrite := func(fr *frame, w value, s value) value {
		wi := w.(iface)
		m := findMethod(fr, wi, "Write")
		if m == nil {
			panic(unsupported("fmt.Fprint* to a writer without Write"))
		}
		r := callValue(fr, m, wi.v, stringToBytes(s))
		if t, ok := r.(tuple); ok {
			return t
		}
		return tuple{cint(0), iface{}}
	}
	intrinsics["fmt.Fprintf"] = func(fr *frame, a []value) value {
		return fwrite(fr, a[0], formatSym(fr, argStr(a[1]), a[2].([]value)))
	}
	intrinsics["fmt.Fprintln"] = func(fr *frame, a []value) value {
		var out value = ""
		for i, x := range a[1].([]value) {
			if i > 0 {
				out = strConcat(out, " ")
			}
			out = strConcat(out, formatSym(fr, "%v", []value{x}))
		}
		return fwrite(fr, a[0], strConcat(out, "\n"))
	}
	intrinsics["fmt.Fprint"] = func(fr *frame, a []value) value {
		var out value = ""
		for _, x := range a[1].([]value) {
			out = strConcat(out, formatSym(fr, "%v", []value{x}))
		}
		return fwrite(fr, a[0], out)
	}

	// ---- net helpers with netip / unique internals ----
	intrinsics["net.ParseIP"] = func(fr *frame, a []value) value {
		s, ok := a[0].(string)
		if !ok {
			return notHandled{} // symbolic text: interpret the real parser
		}
		return fromGoBytes(net.ParseIP(s))
	}
	intrinsics["net.ParseCIDR"] = func(fr *frame, a []value) value {
		s, ok := a[0].(string)
		if !ok {
			return notHandled{}
		}
		ip, n, err := net.ParseCIDR(s)
		if err != nil {
			T := namedType(fr.i.prog, "net", "ParseError")
			var cell value = structure{"CIDR address", s}
			return tuple{[]value(nil), (*value)(nil), iface{t: types.NewPointer(T), v: &cell}}
		}
		var cell value = structure{fromGoBytes(n.IP), fromGoBytes(n.Mask)}
		return tuple{fromGoBytes(ip), &cell, iface{}}
	}
	// unique.Make: canonical handle per distinct (concrete) value
	intrinsics["unique.Make"] = func(fr *frame, a []value) value {
		ks, ok := keyString(a[0])
		if !ok {
			panic(unsupported("unique.Make of a symbolic value"))
		}
		p := uniqueHandles[ks]
		if p == nil {
			p = new(value)
			*p = copyVal(a[0])
			uniqueHandles[ks] = p
		}
		return structure{p}
	}
	intrinsics["(net.IP).String"] = func(fr *frame, a []value) value {
		return ipString(a[0].([]value))
	}
}

// ipString models net.IP.String.  Concrete addresses are rendered natively;
// symbolic ones give an opaque string that is equal exactly when the rendered
// addresses are equal (4-byte and IPv4-mapped 16-byte forms render alike).
func ipString(ip []value) value {
	if b, ok := goBytes(ip); ok || ip == nil {
		return net.IP(b).String()
	}
	ex := curExec()
	switch len(ip) {
	case 4:
		return &absstr{tag: "ip4", args: append([]value{}, ip...)}
	case 16:
		mapped := tTrue
		for i := 0; i < 10; i++ {
			mapped = mkBAnd(mapped, eqTerm(nil, ip[i], cint(0)))
		}
		mapped = mkBAnd(mapped, eqTerm(nil, ip[10], cint(0xff)))
		mapped = mkBAnd(mapped, eqTerm(nil, ip[11], cint(0xff)))
		if mapped == tTrue || (mapped != tFalse && ex.decide(mapped, "ip-v4mapped")) {
			return &absstr{tag: "ip4", args: append([]value{}, ip[12:16]...)}
		}
		return &absstr{tag: "ip6", args: append([]value{}, ip...)}
	}
	return &absstr{tag: fmt.Sprintf("ip-bad%d", len(ip)), args: append([]value{}, ip...)}
}

func errorsIs(fr *frame, err, target iface) value {
	if err.t == nil || target.t == nil {
		return err.t == nil && target.t == nil
	}
	comparable := types.Comparable(target.t)
	return errorsIsRec(fr, err, target, comparable, 0)
}

func errorsIsRec(fr *frame, err, target iface, comparable bool, depth int) bool {
	if depth > 50 {
		return false
	}
	for {
		if comparable && err.t != nil && types.Identical(err.t, target.t) {
			if asBool(fromTerm(eqTerm(err.t, err.v, target.v), false), "errors.Is") {
				return true
			}
		}
		if m := findMethod(fr, err, "Is"); m != nil && m.Signature.Params().Len() == 1 {
			if asBool(callValue(fr, m, err.v, target), "errors.Is-method") {
				return true
			}
		}
		m := findMethod(fr, err, "Unwrap")
		if m == nil {
			return false
		}
		res := m.Signature.Results()
		if res.Len() != 1 {
			return false
		}
		r := callValue(fr, m, err.v)
		switch r := r.(type) {
		case iface:
			if r.t == nil {
				return false
			}
			err = r
		case []value:
			for _, e := range r {
				if e, ok := e.(iface); ok && e.t != nil {
					if errorsIsRec(fr, e, target, comparable, depth+1) {
						return true
					}
				}
			}
			return false
		default:
			return false
		}
	}
}

func errorsAs(fr *frame, err, target iface) value {
	// target is a non-nil pointer to a type implementing error or to an interface
	pt, ok := target.t.Underlying().(*types.Pointer)
	if !ok {
		panic(targetPanic{iface{tRuntimeError, "errors: target must be a non-nil pointer"}})
	}
	want := pt.Elem()
	for depth := 0; err.t != nil && depth < 50; depth++ {
		match := false
		if it, ok := want.Underlying().(*types.Interface); ok {
			match = err.t != tRuntimeError && types.Implements(err.t, it)
			if match {
				storePtr(want, target.v, err)
				return true
			}
		} else if types.Identical(err.t, want) {
			storePtr(want, target.v, err.v)
			return true
		}
		m := findMethod(fr, err, "Unwrap")
		if m == nil {
			return false
		}
		r, ok := callValue(fr, m, err.v).(iface)
		if !ok {
			return false
		}
		err = r
	}
	return false
}

// formatSym renders a format string; %s and %v of (possibly symbolic) strings and byte slices
// are spliced in, everything else must be concrete.
func formatSym(fr *frame, format string, args []value) value {
	var out value = ""
	vi := 0
	lit := func(s string) { out = strConcat(out, s) }
	for i := 0; i < len(format); i++ {
		c := format[i]
		if c != '%' {
			lit(string([]byte{c}))
			continue
		}
		j := i + 1
		for j < len(format) && strings.IndexByte("+-# 0123456789.", format[j]) >= 0 {
			j++
		}
		if j >= len(format) {
			lit("%!(NOVERB)")
			break
		}
		verb := format[j]
		flags := format[i+1 : j]
		i = j
		if verb == '%' {
			lit("%")
			continue
		}
		if vi >= len(args) {
			lit("%!" + string([]byte{verb}) + "(MISSING)")
			continue
		}
		arg := args[vi]
		vi++
		if x, ok := arg.(iface); ok && x.t != nil && flags == "" && (verb == 's' || verb == 'v') {
			switch v := x.v.(type) {
			case string, *symstr:
				if !types.Implements(x.t, errorIface) {
					out = strConcat(out, v)
					continue
				}
			case []value:
				if verb == 's' {
					if sl, ok := x.t.Underlying().(*types.Slice); ok {
						if b, ok := sl.Elem().Underlying().(*types.Basic); ok && b.Kind() == types.Uint8 {
							out = strConcat(out, mkStr(v))
							continue
						}
					}
				}
			}
		}
		s := formatOne(fr, verb, flags, arg)
		if strings.Contains(s, "<sym>") {
			panic(unsupported("formatting a symbolic value with %" + flags + string(verb)))
		}
		lit(s)
	}
	if vi < len(args) {
		lit("%!(EXTRA )")
	}
	return out
}

// formatArgs renders a format string natively when all arguments are concrete.
func formatArgs(fr *frame, format string, args []value) (string, bool) {
	var sb strings.Builder
	vi := 0
	allConcrete := true
	for i := 0; i < len(format); i++ {
		c := format[i]
		if c != '%' {
			sb.WriteByte(c)
			continue
		}
		j := i + 1
		for j < len(format) && strings.IndexByte("+-# 0123456789.", format[j]) >= 0 {
			j++
		}
		if j >= len(format) {
			sb.WriteString(format[i:])
			break
		}
		verb := format[j]
		flags := format[i+1 : j]
		i = j
		if verb == '%' {
			sb.WriteByte('%')
			continue
		}
		if vi >= len(args) {
			sb.WriteString("%!" + string(verb) + "(MISSING)")
			continue
		}
		s := formatOne(fr, verb, flags, args[vi])
		if strings.Contains(s, "<sym>") {
			allConcrete = false
		}
		sb.WriteString(s)
		vi++
	}
	return sb.String(), allConcrete
}

func formatOne(fr *frame, verb byte, flags string, v value) string {
	x, ok := v.(iface)
	if !ok {
		return "<sym>"
	}
	if x.t == nil {
		return "<nil>"
	}
	spec := "%" + flags + string(verb)
	if verb == 'w' {
		spec = "%" + flags + "v"
		verb = 'v'
	}
	if isSym(x.v) {
		return "<sym>"
	}
	// error / Stringer for %v %s
	if verb == 'v' || verb == 's' || verb == 'q' {
		if x.t == tRuntimeError {
			return fmt.Sprintf(spec, x.v.(string))
		}
		if types.Implements(x.t, errorIface) {
			return fmt.Sprintf(spec, errorString(fr, x))
		}
		if m := findMethod(fr, x, "String"); m != nil && m.Signature.Params().Len() == 0 && m.Signature.Results().Len() == 1 {
			r := callValue(fr, m, x.v)
			if s, ok := r.(string); ok {
				return fmt.Sprintf(spec, s)
			}
			return "<sym>"
		}
	}
	switch val := x.v.(type) {
	case bool:
		return fmt.Sprintf(spec, val)
	case string:
		return fmt.Sprintf(spec, val)
	case float64:
		return fmt.Sprintf(spec, val)
	case cint:
		_, signed, _ := intInfo(x.t)
		if signed {
			return fmt.Sprintf(spec, int64(val))
		}
		return fmt.Sprintf(spec, uint64(val))
	case []value:
		if b, ok := goBytes(val); ok {
			if _, isByte := x.t.Underlying().(*types.Slice); isByte {
				return fmt.Sprintf(spec, b)
			}
		}
	case *value:
		if val == nil {
			return "<nil>"
		}
		return fmt.Sprintf("0xc%07x", ptrToInt(val))
	}
	return "<" + x.t.String() + ">"
}

var errorIface = types.Universe.Lookup("error").Type().Underlying().(*types.Interface)
