package main

// Loading the current /repo tree with harness overlays and seam rewriting.

import (
	"bytes"
	"encoding/json"
	"fmt"
	"go/ast"
	"go/parser"
	"go/token"
	"os"
	osexec "os/exec"
	"path/filepath"
	"regexp"
	"sort"
	"strings"

	"golang.org/x/tools/go/packages"
	"golang.org/x/tools/go/ssa"
	"golang.org/x/tools/go/ssa/ssautil"
)

var repoDir = "/repo"

// Seam redirects call expressions in one source file of /repo.
//   Call "rand.Intn"      -> calls pkgident.Func(...) become To(...)
//   Call ".Addrs"         -> method calls x.Addrs(...) become To(x, ...)
//   Call "newRangeIterator" -> plain identifier calls
type Seam struct {
	File string `json:"file"` // relative to /repo
	Call string `json:"call"`
	To   string `json:"to"`
	// Func restricts the rewrite to the body of this function/method (optional)
	Func string `json:"func,omitempty"`
	// Optional seams may match no call site (e.g. an alternative API the code might use)
	Optional bool `json:"optional,omitempty"`
	// Addr passes the address of the receiver expression: x.M(a) -> To(&x, a)
	Addr bool `json:"addr,omitempty"`
}

type HarnessSpec struct {
	Pkg     string   `json:"pkg"`   // relative dir in /repo, e.g. "pkg/scan"
	Files   []string `json:"files"` // harness sources (absolute or relative to /verif)
	Seams   []Seam   `json:"seams"`
	Harness string   `json:"harness"`
}

type overlaySet struct {
	files map[string][]byte // virtual path -> content
	pkgName string
	harnessNames []string
	seamsApplied []string
	depFiles     bool // some file is overlaid into a dependency module: the go command's module index must be off
}

// goEnv is the environment of every go command run on behalf of an overlay.
func (ov *overlaySet) goEnv(extra ...string) []string {
	env := append(os.Environ(), "GOFLAGS=-mod=mod", "GOPROXY=off", "GOSUMDB=off", "GOTOOLCHAIN=local")
	if ov != nil && ov.depFiles {
		env = append(env, "GODEBUG=goindex=0")
	}
	return append(env, extra...)
}

func packageNameOf(dir string) (string, error) {
	ents, err := os.ReadDir(dir)
	if err != nil {
		return "", err
	}
	fset := token.NewFileSet()
	for _, e := range ents {
		n := e.Name()
		if !strings.HasSuffix(n, ".go") || strings.HasSuffix(n, "_test.go") {
			continue
		}
		f, err := parser.ParseFile(fset, filepath.Join(dir, n), nil, parser.PackageClauseOnly)
		if err == nil {
			return f.Name.Name, nil
		}
	}
	return "", fmt.Errorf("no go files in %s", dir)
}

// depPkgDir resolves the source directory of a dependency package (module cache).
func depPkgDir(importPath string) (string, error) {
	cmd := osexec.Command("go", "list", "-f", "{{.Dir}}", importPath)
	cmd.Dir = repoDir
	cmd.Env = append(os.Environ(), "GOFLAGS=-mod=mod", "GOPROXY=off", "GOSUMDB=off", "GOTOOLCHAIN=local")
	out, err := cmd.Output()
	if err != nil {
		return "", fmt.Errorf("go list %s: %v", importPath, err)
	}
	d := strings.TrimSpace(string(out))
	if d == "" {
		return "", fmt.Errorf("go list %s: no directory", importPath)
	}
	return d, nil
}

var harnessFuncRe = regexp.MustCompile(`(?m)^func (VerifH_[A-Za-z0-9_]+)\(\)`)

func buildOverlay(spec *HarnessSpec, verifDir string) (*overlaySet, error) {
	dir := filepath.Join(repoDir, spec.Pkg)
	pkgName, err := packageNameOf(dir)
	if err != nil {
		return nil, err
	}
	ov := &overlaySet{files: map[string][]byte{}, pkgName: pkgName}
	ov.files[filepath.Join(dir, "zz_verif_prims.go")] = []byte(strings.Replace(primsSource, "package PKG", "package "+pkgName, 1))
	for _, f := range spec.Files {
		// "other/pkg/dir::path" places a support file (seam targets, exported hooks; no nd* calls)
		// into another package of /repo
		tdir, tname, primary := dir, pkgName, true
		if i := strings.Index(f, "::"); i >= 0 {
			if strings.HasPrefix(f[:i], "@") {
				// "@import/path::file": a package of a dependency module (resolved by go list)
				d, err := depPkgDir(f[1:i])
				if err != nil {
					return nil, err
				}
				tdir = d
				ov.depFiles = true
			} else {
				tdir = filepath.Join(repoDir, f[:i])
			}
			f = f[i+2:]
			primary = false
			if tname, err = packageNameOf(tdir); err != nil {
				return nil, err
			}
		}
		p := f
		if !filepath.IsAbs(p) {
			p = filepath.Join(verifDir, f)
		}
		b, err := os.ReadFile(p)
		if err != nil {
			return nil, err
		}
		b = bytes.Replace(b, []byte("package PKG\n"), []byte("package "+tname+"\n"), 1)
		if primary {
			for _, m := range harnessFuncRe.FindAllSubmatch(b, -1) {
				ov.harnessNames = append(ov.harnessNames, string(m[1]))
			}
		}
		ov.files[filepath.Join(tdir, "zz_verif_"+filepath.Base(p))] = b
	}
	sort.Strings(ov.harnessNames)
	// seams, grouped by file
	byFile := map[string][]Seam{}
	for _, s := range spec.Seams {
		byFile[s.File] = append(byFile[s.File], s)
	}
	var files []string
	for f := range byFile {
		files = append(files, f)
	}
	sort.Strings(files)
	for _, f := range files {
		p := filepath.Join(repoDir, f)
		src, err := os.ReadFile(p)
		if err != nil {
			return nil, err
		}
		out, applied, err := rewriteSeams(p, src, byFile[f])
		if err != nil {
			return nil, err
		}
		ov.files[p] = out
		ov.seamsApplied = append(ov.seamsApplied, applied...)
	}
	return ov, nil
}

// rewriteSeams redirects the selected call expressions of one file.
func rewriteSeams(path string, src []byte, seams []Seam) ([]byte, []string, error) {
	fset := token.NewFileSet()
	f, err := parser.ParseFile(fset, path, src, parser.ParseComments)
	if err != nil {
		return nil, nil, err
	}
	type edit struct {
		start, end int
		text       string
	}
	var edits []edit
	var applied []string
	counts := make([]int, len(seams))
	usedPkgs := map[string]string{} // ident -> some selector to keep the import used
	var curFunc string
	ast.Inspect(f, func(n ast.Node) bool {
		if fd, ok := n.(*ast.FuncDecl); ok {
			curFunc = fd.Name.Name
			if fd.Recv != nil && len(fd.Recv.List) == 1 {
				t := fd.Recv.List[0].Type
				if st, ok := t.(*ast.StarExpr); ok {
					t = st.X
				}
				if id, ok := t.(*ast.Ident); ok {
					curFunc = id.Name + "." + fd.Name.Name
				}
			}
		}
		call, ok := n.(*ast.CallExpr)
		if !ok {
			return true
		}
		for si, s := range seams {
			if s.Func != "" && s.Func != curFunc {
				continue
			}
			switch fun := call.Fun.(type) {
			case *ast.SelectorExpr:
				if strings.HasPrefix(s.Call, ".") {
					if fun.Sel.Name == s.Call[1:] {
						// x.M(args) -> To(x, args); x.(T).M(args) -> To(x, args): the stub decides by itself
						recv := fun.X
						if ta, ok := recv.(*ast.TypeAssertExpr); ok && ta.Type != nil {
							recv = ta.X
						}
						xs := string(src[fset.Position(recv.Pos()).Offset:fset.Position(recv.End()).Offset])
						if s.Addr {
							xs = "&" + xs
						}
						sep := ", "
						if len(call.Args) == 0 {
							sep = ""
						}
						edits = append(edits, edit{fset.Position(call.Pos()).Offset, fset.Position(call.Lparen).Offset + 1, s.To + "(" + xs + sep})
						counts[si]++
					}
					continue
				}
				if id, ok := fun.X.(*ast.Ident); ok && id.Name+"."+fun.Sel.Name == s.Call {
					edits = append(edits, edit{fset.Position(fun.Pos()).Offset, fset.Position(fun.End()).Offset, s.To})
					usedPkgs[id.Name] = s.Call
					counts[si]++
				}
			case *ast.Ident:
				if fun.Name == s.Call {
					edits = append(edits, edit{fset.Position(fun.Pos()).Offset, fset.Position(fun.End()).Offset, s.To})
					counts[si]++
				}
			}
		}
		return true
	})
	for si, s := range seams {
		if counts[si] == 0 && s.Optional {
			continue
		}
		if counts[si] == 0 {
			return nil, nil, fmt.Errorf("seam %s in %s matched no call site (source changed?)", s.Call, s.File)
		}
		applied = append(applied, fmt.Sprintf("%s: %s -> %s (%d sites)", s.File, s.Call, s.To, counts[si]))
	}
	sort.Slice(edits, func(i, j int) bool { return edits[i].start > edits[j].start })
	out := append([]byte{}, src...)
	for _, e := range edits {
		out = append(out[:e.start], append([]byte(e.text), out[e.end:]...)...)
	}
	// keep imports used
	var keep bytes.Buffer
	var ids []string
	for id := range usedPkgs {
		ids = append(ids, id)
	}
	sort.Strings(ids)
	for _, id := range ids {
		fmt.Fprintf(&keep, "\nvar _ = %s\n", usedPkgs[id])
	}
	out = append(out, keep.Bytes()...)
	return out, applied, nil
}

type loaded struct {
	prog *ssa.Program
	pkg  *ssa.Package
	ov   *overlaySet
}

func loadProgram(spec *HarnessSpec, verifDir string) (*loaded, error) {
	ov, err := buildOverlay(spec, verifDir)
	if err != nil {
		return nil, err
	}
	cfg := &packages.Config{
		Mode:    packages.LoadAllSyntax,
		Dir:     repoDir,
		Overlay: ov.files,
		Env:     ov.goEnv(),
	}
	pkgs, err := packages.Load(cfg, "./"+spec.Pkg)
	if err != nil {
		return nil, err
	}
	var errs []string
	packages.Visit(pkgs, nil, func(p *packages.Package) {
		for _, e := range p.Errors {
			errs = append(errs, e.Error())
		}
	})
	if len(errs) > 0 {
		if len(errs) > 10 {
			errs = errs[:10]
		}
		return nil, fmt.Errorf("package load errors:\n%s", strings.Join(errs, "\n"))
	}
	prog, spkgs := ssautil.AllPackages(pkgs, ssa.InstantiateGenerics)
	prog.Build()
	if len(spkgs) == 0 || spkgs[0] == nil {
		return nil, fmt.Errorf("no SSA package for %s", spec.Pkg)
	}
	return &loaded{prog: prog, pkg: spkgs[0], ov: ov}, nil
}

// writeOverlayFiles materialises the overlay for `go test -overlay` and returns
// the overlay JSON path.  Everything lives under dir.
func writeOverlayFiles(ov *overlaySet, spec *HarnessSpec, dir string) (string, error) {
	repl := map[string]string{}
	i := 0
	var paths []string
	for p := range ov.files {
		paths = append(paths, p)
	}
	sort.Strings(paths)
	for _, p := range paths {
		real := filepath.Join(dir, fmt.Sprintf("f%d_%s", i, filepath.Base(p)))
		i++
		if err := os.WriteFile(real, ov.files[p], 0o644); err != nil {
			return "", err
		}
		repl[p] = real
	}
	// replay test
	var sb strings.Builder
	fmt.Fprintf(&sb, "package %s\n\nimport \"testing\"\n\nvar verifHarnesses = map[string]func(){\n", ov.pkgName)
	for _, h := range ov.harnessNames {
		fmt.Fprintf(&sb, "\t%q: %s,\n", h, h)
	}
	sb.WriteString("}\n\nfunc TestVerifReplay(t *testing.T) { verifReplayMain(t, verifHarnesses) }\n")
	tp := filepath.Join(dir, "zz_verif_replay_test.go")
	if err := os.WriteFile(tp, []byte(sb.String()), 0o644); err != nil {
		return "", err
	}
	repl[filepath.Join(repoDir, spec.Pkg, "zz_verif_replay_test.go")] = tp
	// test-only half of the prims
	pt := filepath.Join(dir, "zz_verif_prims_test.go")
	if err := os.WriteFile(pt, []byte(strings.Replace(primsTestSource, "package PKG", "package "+ov.pkgName, 1)), 0o644); err != nil {
		return "", err
	}
	repl[filepath.Join(repoDir, spec.Pkg, "zz_verif_prims_test.go")] = pt
	b, _ := json.MarshalIndent(map[string]interface{}{"Replace": repl}, "", " ")
	op := filepath.Join(dir, "overlay.json")
	return op, os.WriteFile(op, b, 0o644)
}
