package main

// check driver: runs every obligation of a property (each in its own gosym
// process), replays counterexamples and sample models natively against the
// real build, writes the evidence file and prints the verdict lines.

import (
	"bytes"
	"encoding/json"
	"flag"
	"fmt"
	"os"
	osexec "os/exec"
	"path/filepath"
	"regexp"
	"sort"
	"strconv"
	"strings"
	"sync"
	"time"
)

type TierCfg struct {
	Params   map[string]int   `json:"params,omitempty"`
	Split    map[string][]int `json:"split,omitempty"`       // param -> explicit values
	SplitRng map[string][]int `json:"split_range,omitempty"` // param -> [lo,hi] inclusive
	Budget   string           `json:"budget,omitempty"`      // wall budget per run (default 10m)
	Timeout  int              `json:"timeout_ms,omitempty"`  // per query
	MaxPaths int              `json:"max_paths,omitempty"`
	Preempt  *int             `json:"preempt,omitempty"`
	Skip     bool             `json:"skip,omitempty"`
	MaxSteps int64            `json:"max_steps,omitempty"`
}

type Obligation struct {
	ID          string   `json:"id"`
	Pkg         string   `json:"pkg"`
	Harness     string   `json:"harness"`
	Files       []string `json:"files"`
	Seams       []Seam   `json:"seams,omitempty"`
	Covers      []string `json:"covers,omitempty"`
	Solver      string   `json:"solver,omitempty"`
	Preempt     int      `json:"preempt,omitempty"`
	Quick       TierCfg  `json:"quick"`
	Thorough    TierCfg  `json:"thorough"`
	Bound       string   `json:"bound"`
	Outside     string   `json:"outside,omitempty"`
	Assumptions []string `json:"assumptions,omitempty"`
	NoReplay    bool     `json:"no_replay,omitempty"` // sample models are not replayed natively (e.g. schedule dependent)
	NativeRace  bool     `json:"native_race,omitempty"` // counterexamples are schedule dependent: replay under the race detector, repeated
	NativeRepeat int     `json:"native_repeat,omitempty"` // counterexamples depend on a select choice: replay this many times (no race detector)
	WitnessOnly bool     `json:"witness_only,omitempty"`
}

type PropSpec struct {
	Property    string       `json:"property"`
	Level       string       `json:"level"`
	Explanation string       `json:"explanation"`
	Assumptions []string     `json:"assumptions"`
	Obligations []Obligation `json:"obligations"`
}

type knownFinding struct {
	Property string `json:"property"`
	ID       string `json:"id"`
	Status   string `json:"status"` // open | fixed
	What     string `json:"what"`
	Commit   string `json:"commit,omitempty"`
}

type knownFile struct {
	Findings []knownFinding `json:"findings"`
}

type runJob struct {
	obl    *Obligation
	params map[string]int
	tier   *TierCfg
	label  string
	res    *OblResult
	out    string
	err    string
	wit    bool
}

func loadSpec(verifDir, id string) (*PropSpec, error) {
	b, err := os.ReadFile(filepath.Join(verifDir, "harness", "specs", id+".json"))
	if err != nil {
		return nil, err
	}
	var sp PropSpec
	dec := json.NewDecoder(bytes.NewReader(b))
	dec.DisallowUnknownFields()
	if err := dec.Decode(&sp); err != nil {
		return nil, fmt.Errorf("spec %s: %v", id, err)
	}
	return &sp, nil
}

func expandSplits(t *TierCfg) []map[string]int {
	base := map[string]int{}
	for k, v := range t.Params {
		base[k] = v
	}
	out := []map[string]int{base}
	add := func(name string, vals []int) {
		var next []map[string]int
		for _, m := range out {
			for _, v := range vals {
				c := map[string]int{}
				for k, x := range m {
					c[k] = x
				}
				c[name] = v
				next = append(next, c)
			}
		}
		out = next
	}
	var names []string
	for k := range t.Split {
		names = append(names, k)
	}
	sort.Strings(names)
	for _, k := range names {
		add(k, t.Split[k])
	}
	names = names[:0]
	for k := range t.SplitRng {
		names = append(names, k)
	}
	sort.Strings(names)
	for _, k := range names {
		r := t.SplitRng[k]
		var vals []int
		for v := r[0]; v <= r[1]; v++ {
			vals = append(vals, v)
		}
		add(k, vals)
	}
	return out
}

func paramStr(m map[string]int) string {
	var ks []string
	for k := range m {
		ks = append(ks, k)
	}
	sort.Strings(ks)
	var parts []string
	for _, k := range ks {
		parts = append(parts, fmt.Sprintf("%s=%d", k, m[k]))
	}
	return strings.Join(parts, ",")
}

func cmdCheck(args []string) int {
	fs := flag.NewFlagSet("check", flag.ExitOnError)
	tier := fs.String("tier", "", "quick | thorough")
	verifDir := fs.String("verif", "/verif", "verif dir")
	repo := fs.String("repo", "/repo", "repo dir")
	only := fs.String("only", "", "run only obligations whose id contains this")
	jobs := fs.Int("jobs", 6, "parallel gosym processes")
	replay := fs.String("replay", "", "replay a counterexample file natively")
	noNative := fs.Bool("no-native", false, "skip native sample replays (debugging)")
	noEvidence := fs.Bool("no-evidence", false, "do not write the evidence file (debugging)")
	verbose := fs.Bool("v", false, "verbose")
	// allow "check ID flags..."
	var id string
	if len(args) > 0 && !strings.HasPrefix(args[0], "-") {
		id = args[0]
		args = args[1:]
	}
	fs.Parse(args)
	if id == "" && fs.NArg() > 0 {
		id = fs.Arg(0)
	}
	if id == "" {
		fmt.Fprintln(os.Stderr, "usage: gosym check <ID> [--tier quick|thorough]")
		return 2
	}
	repoDir = *repo
	if *tier == "" {
		*tier = os.Getenv("VERIF_TIER")
	}
	if *tier == "" {
		*tier = "quick"
	}
	seed, _ := strconv.Atoi(os.Getenv("VERIF_SEED"))
	start := time.Now()

	if *replay != "" {
		return replayFile(*verifDir, id, *replay)
	}

	spec, err := loadSpec(*verifDir, id)
	if err != nil {
		fmt.Fprintln(os.Stderr, err)
		return 2
	}
	known := knownFile{}
	if b, err := os.ReadFile(filepath.Join(*verifDir, "known_findings.json")); err == nil {
		if err := json.Unmarshal(b, &known); err != nil {
			fmt.Fprintln(os.Stderr, "known_findings.json:", err)
			return 2
		}
	}

	tmp, err := os.MkdirTemp("", "gosym-check-")
	if err != nil {
		fmt.Fprintln(os.Stderr, err)
		return 2
	}
	defer os.RemoveAll(tmp)

	// ---- expand into runs ----
	var runs []*runJob
	for i := range spec.Obligations {
		o := &spec.Obligations[i]
		if *only != "" && !strings.Contains(o.ID, *only) {
			continue
		}
		t := &o.Quick
		if *tier == "thorough" {
			t = &o.Thorough
			if t.Skip {
				continue
			}
			if t.Params == nil && t.Split == nil && t.SplitRng == nil && t.Budget == "" {
				// thorough defaults to the quick configuration
				q := o.Quick
				t = &q
			}
		} else if t.Skip {
			continue
		}
		for _, pm := range expandSplits(t) {
			runs = append(runs, &runJob{obl: o, params: pm, tier: t, label: o.ID + "[" + paramStr(pm) + "]"})
			if *tier == "thorough" && !o.WitnessOnly {
				runs = append(runs, &runJob{obl: o, params: pm, tier: t, label: o.ID + "[" + paramStr(pm) + "]#witness", wit: true})
			}
		}
	}
	if len(runs) == 0 {
		fmt.Fprintln(os.Stderr, "no obligations selected")
		return 2
	}

	// ---- run them: worker processes, each loads its group's program once ----
	self, _ := os.Executable()
	gkey := func(o *Obligation) string {
		sb, _ := json.Marshal(o.Seams)
		return o.Pkg + "|" + strings.Join(o.Files, ",") + "|" + string(sb)
	}
	byGroup := map[string][]int{}
	var gorder []string
	for i, r := range runs {
		k := gkey(r.obl)
		if _, ok := byGroup[k]; !ok {
			gorder = append(gorder, k)
		}
		byGroup[k] = append(byGroup[k], i)
	}
	type worker struct {
		mf manyFile
		bd time.Duration
	}
	var workers []*worker
	for _, k := range gorder {
		idxs := byGroup[k]
		// one worker process per slot and group (each loads the package once); the semaphore
		// below keeps at most *jobs of them running, so that run costs that are skewed inside a
		// group (large split values) do not serialise behind one process
		nw := *jobs
		if nw > len(idxs) {
			nw = len(idxs)
		}
		if nw < 1 {
			nw = 1
		}
		// heavier runs (later split values) first, dealt round-robin
		ws := make([]*worker, nw)
		o0 := runs[idxs[0]].obl
		for w := range ws {
			ws[w] = &worker{mf: manyFile{Pkg: o0.Pkg, Files: o0.Files, Seams: o0.Seams, OutDir: tmp}}
		}
		for n := len(idxs) - 1; n >= 0; n-- {
			i := idxs[n]
			r := runs[i]
			o := r.obl
			budget := r.tier.Budget
			if budget == "" {
				budget = "10m"
			}
			bd, _ := time.ParseDuration(budget)
			pre := o.Preempt
			if r.tier.Preempt != nil {
				pre = *r.tier.Preempt
			}
			j := manyJob{Index: i, Harness: o.Harness, Params: r.params, Solver: o.Solver, Timeout: r.tier.Timeout,
				MaxPaths: r.tier.MaxPaths, MaxSteps: r.tier.MaxSteps, Budget: budget, Preempt: pre, Witness: r.wit}
			w := ws[(len(idxs)-1-n)%nw]
			w.mf.Jobs = append(w.mf.Jobs, j)
			w.bd += bd + 30*time.Second
		}
		workers = append(workers, ws...)
	}
	sem := make(chan struct{}, *jobs)
	var wg sync.WaitGroup
	for wi, w := range workers {
		wg.Add(1)
		go func(wi int, w *worker) {
			defer wg.Done()
			sem <- struct{}{}
			defer func() { <-sem }()
			jf := filepath.Join(tmp, fmt.Sprintf("worker%d.json", wi))
			jb, _ := json.Marshal(w.mf)
			os.WriteFile(jf, jb, 0o644)
			cmd := osexec.Command(self, "runmany", "-jobs", jf, "-verif", *verifDir, "-repo", *repo)
			var stderr bytes.Buffer
			cmd.Stderr = &stderr
			cmd.Stdout = &stderr
			done := make(chan error, 1)
			werr := ""
			if err := cmd.Start(); err != nil {
				werr = err.Error()
			} else {
				go func() { done <- cmd.Wait() }()
				select {
				case <-done:
				case <-time.After(w.bd + 3*time.Minute):
					cmd.Process.Kill()
					<-done
					werr = "killed: worker exceeded its wall budget"
				}
			}
			for _, j := range w.mf.Jobs {
				r := runs[j.Index]
				b, err := os.ReadFile(filepath.Join(tmp, fmt.Sprintf("run%d.json", j.Index)))
				if err != nil {
					r.err = werr
					if r.err == "" {
						r.err = "no result: " + firstLines(stderr.String(), 6)
					}
					continue
				}
				var res OblResult
				if err := json.Unmarshal(b, &res); err != nil {
					r.err = "bad result json: " + err.Error()
					continue
				}
				r.res = &res
				if *verbose {
					fmt.Fprintf(os.Stderr, "  %-50s %-12s paths=%d queries=%d solver=%.1fs wall=%.1fs\n", r.label, res.Verdict, res.Paths, res.SolverStats.Queries, res.SolverStats.Seconds, res.WallS)
				}
			}
		}(wi, w)
	}
	wg.Wait()

	// ---- native replay: counterexamples and sample models ----
	type group struct {
		obl   *Obligation
		cases []replayCase
		owner []*runJob
		vidx  []int // index into owner's violations, or -1 for a sample model
	}
	groups := map[string]*group{}
	for _, r := range runs {
		if r.res == nil || r.wit {
			continue
		}
		g := groups[gkey(r.obl)]
		if g == nil {
			g = &group{obl: r.obl}
			groups[gkey(r.obl)] = g
		}
		for vi := range r.res.Violations {
			if vi >= 4 {
				break
			}
			v := &r.res.Violations[vi]
			g.cases = append(g.cases, replayCase{Harness: r.obl.Harness, Params: r.params, Tape: v.Tape})
			g.owner = append(g.owner, r)
			g.vidx = append(g.vidx, vi)
		}
		if !r.obl.NoReplay && !*noNative {
			for si, m := range r.res.Samples {
				if si >= 2 {
					break
				}
				g.cases = append(g.cases, replayCase{Harness: r.obl.Harness, Params: r.params, Tape: m})
				g.owner = append(g.owner, r)
				g.vidx = append(g.vidx, -1)
			}
		}
	}
	samplesReplayed, samplesAgree := 0, 0
	var sampleDisagree []string
	var gmu sync.Mutex
	var gwg sync.WaitGroup
	gsem := make(chan struct{}, 4)
	gi := 0
	for _, g := range groups {
		if len(g.cases) == 0 {
			continue
		}
		gi++
		gwg.Add(1)
		go func(g *group, gi int) {
			defer gwg.Done()
			gsem <- struct{}{}
			defer func() { <-gsem }()
			dir := filepath.Join(tmp, fmt.Sprintf("replay%d", gi))
			os.MkdirAll(dir, 0o755)
			sts, log := nativeReplay(g.obl, *verifDir, dir, g.cases)
			gmu.Lock()
			defer gmu.Unlock()
			for k, st := range sts {
				r := g.owner[k]
				if g.vidx[k] >= 0 {
					v := &r.res.Violations[g.vidx[k]]
					v.Replayed = st
					if *verbose {
						fmt.Fprintf(os.Stderr, "  replay %s violation %q -> %s\n", r.label, v.Msg, st)
					}
				} else {
					if st == "not-run" {
						continue // the batch was cut short (another case crashed it): no evidence either way
					}
					samplesReplayed++
					if st == "ok" || st == "assume-false" {
						samplesAgree++
					} else {
						sampleDisagree = append(sampleDisagree, fmt.Sprintf("%s: sample model of a passing path gives %s natively", r.label, st))
					}
				}
			}
			if *verbose && strings.Contains(log, "FAIL") {
				fmt.Fprintln(os.Stderr, firstLines(log, 40))
			}
		}(g, gi)
	}
	gwg.Wait()

	// ---- verdicts ----
	exit := 0
	nViol, nKnown, nIncon := 0, 0, 0
	var lines []string
	os.MkdirAll(filepath.Join(*verifDir, "evidence", "replay"), 0o755)
	printedKnown := map[string]bool{}
	witReached := map[string]*bool{}
	for _, r := range runs {
		if r.res == nil {
			nIncon++
			lines = append(lines, fmt.Sprintf("INCONCLUSIVE property=%s obligation=%s reason=%s", id, r.label, oneLine(r.err)))
			continue
		}
		if r.wit {
			// witness twin: some run of the obligation must reach an assertion (checked below, per obligation)
			if witReached[r.obl.ID] == nil {
				witReached[r.obl.ID] = new(bool)
			}
			if len(r.res.Violations) > 0 {
				*witReached[r.obl.ID] = true
			}
			continue
		}
		if r.res.Verdict == "error" {
			nIncon++
			lines = append(lines, fmt.Sprintf("INCONCLUSIVE property=%s obligation=%s reason=engine error: %s", id, r.label, oneLine(r.res.Error)))
			continue
		}
		for _, inc := range r.res.Inconclusive {
			nIncon++
			lines = append(lines, fmt.Sprintf("INCONCLUSIVE property=%s obligation=%s reason=%s", id, r.label, oneLine(inc)))
		}
		for vi := range r.res.Violations {
			v := &r.res.Violations[vi]
			confirmed := nativeConfirms(v)
			if v.Replayed == "" {
				nIncon++
				lines = append(lines, fmt.Sprintf("INCONCLUSIVE property=%s obligation=%s reason=counterexample not replayed (%s)", id, r.label, oneLine(v.Msg)))
				continue
			}
			if !confirmed {
				nIncon++
				lines = append(lines, fmt.Sprintf("INCONCLUSIVE property=%s obligation=%s reason=unconfirmed counterexample: %q replays natively as %s", id, r.label, oneLine(v.Msg), v.Replayed))
				continue
			}
			if kf := findKnown(&known, id, v.Known); kf != nil && kf.Status == "open" {
				nKnown++
				if !printedKnown[kf.ID] {
					printedKnown[kf.ID] = true
					lines = append(lines, fmt.Sprintf("KNOWN-FINDING: property=%s %s [%s]", id, kf.What, kf.ID))
				}
				continue
			}
			nViol++
			path := filepath.Join(*verifDir, "evidence", "replay", fmt.Sprintf("%s-%s-%d.json", id, sanitize(r.label), vi))
			rb, _ := json.MarshalIndent(map[string]interface{}{
				"property": id, "obligation": r.obl.ID, "harness": r.obl.Harness, "pkg": r.obl.Pkg,
				"params": r.params, "kind": v.Kind, "msg": v.Msg, "where": v.Where, "tape": v.Tape, "sched": v.Sched,
				"native_replay": v.Replayed,
			}, "", " ")
			os.WriteFile(path, rb, 0o644)
			lines = append(lines, fmt.Sprintf("VIOLATION property=%s replay=%s", id, path))
			lines = append(lines, fmt.Sprintf("  obligation=%s kind=%s msg=%q native=%s", r.label, v.Kind, oneLine(v.Msg), v.Replayed))
			exit = 1
		}
	}
	for oid, ok := range witReached {
		if !*ok {
			nIncon++
			lines = append(lines, fmt.Sprintf("INCONCLUSIVE property=%s obligation=%s reason=witness twin reached no assertion in any run (vacuous harness)", id, oid))
		}
	}
	// vacuity guard: every cover label of an obligation must be reached by some run of it
	reached := map[string]map[string]bool{}
	complete := map[string]bool{}
	for _, r := range runs {
		if r.wit {
			continue
		}
		if reached[r.obl.ID] == nil {
			reached[r.obl.ID] = map[string]bool{}
			complete[r.obl.ID] = true
		}
		if r.res == nil {
			complete[r.obl.ID] = false
			continue
		}
		for c, n := range r.res.Covers {
			if n > 0 {
				reached[r.obl.ID][c] = true
			}
		}
	}
	for i := range spec.Obligations {
		o := &spec.Obligations[i]
		if reached[o.ID] == nil {
			continue
		}
		for _, c := range o.Covers {
			if !reached[o.ID][c] {
				nIncon++
				lines = append(lines, fmt.Sprintf("INCONCLUSIVE property=%s obligation=%s reason=cover label %q never reached by any run (vacuity guard)", id, o.ID, c))
			}
		}
	}
	for _, d := range sampleDisagree {
		nIncon++
		lines = append(lines, fmt.Sprintf("INCONCLUSIVE property=%s reason=translation check: %s", id, d))
	}
	for _, l := range lines {
		fmt.Println(l)
	}

	// ---- evidence ----
	if !*noEvidence {
		writeEvidence(*verifDir, id, *tier, seed, spec, runsToEvidence(runs), nViol, nKnown, nIncon, samplesReplayed, samplesAgree, time.Since(start).Seconds(), lines)
	}
	fmt.Printf("%s %s: obligations(runs)=%d violations=%d known=%d inconclusive=%d wall=%.1fs\n", id, *tier, len(runs), nViol, nKnown, nIncon, time.Since(start).Seconds())
	return exit
}

func nativeConfirms(v *violation) bool {
	switch v.Replayed {
	case "assert-fail":
		return v.Kind == "assert" || v.Kind == "witness"
	case "panic", "crash":
		return v.Kind == "panic" || v.Kind == "assert"
	case "hang":
		return v.Kind == "deadlock"
	case "race":
		// the real build, under the race detector, reports unsynchronised access on this harness:
		// the interleaving the engine found is not excluded by any synchronisation
		return true
	}
	return false
}

func findKnown(k *knownFile, prop, id string) *knownFinding {
	if id == "" {
		return nil
	}
	for i := range k.Findings {
		if k.Findings[i].Property == prop && k.Findings[i].ID == id {
			return &k.Findings[i]
		}
	}
	return nil
}

var sanRe = regexp.MustCompile(`[^A-Za-z0-9_.=-]+`)

func sanitize(s string) string { return sanRe.ReplaceAllString(s, "_") }

func oneLine(s string) string {
	s = strings.ReplaceAll(s, "\n", " | ")
	if len(s) > 300 {
		s = s[:300] + "…"
	}
	return s
}

func firstLines(s string, n int) string {
	ls := strings.Split(s, "\n")
	if len(ls) > n {
		ls = ls[:n]
	}
	return strings.Join(ls, "\n")
}

type replayCase struct {
	Harness string            `json:"harness"`
	Params  map[string]int    `json:"params"`
	Tape    map[string]uint64 `json:"tape"`
}

var caseResRe = regexp.MustCompile(`VERIF-CASE-RESULT (\d+) (\S+)`)
var caseStartRe = regexp.MustCompile(`VERIF-CASE-START (\d+) `)

// nativeReplay runs the cases against the real build (go test -overlay) and
// returns one status per case: ok | assume-false | assert-fail | panic | crash | hang | not-run.
func nativeReplay(o *Obligation, verifDir, dir string, cases []replayCase) ([]string, string) {
	sts := make([]string, len(cases))
	for i := range sts {
		sts[i] = "not-run"
	}
	spec := &HarnessSpec{Pkg: o.Pkg, Files: o.Files, Seams: o.Seams, Harness: o.Harness}
	ov, err := buildOverlay(spec, verifDir)
	if err != nil {
		return sts, err.Error()
	}
	op, err := writeOverlayFiles(ov, spec, dir)
	if err != nil {
		return sts, err.Error()
	}
	var fullLog strings.Builder
	pending := make([]int, len(cases))
	for i := range pending {
		pending[i] = i
	}
	for attempt := 0; len(pending) > 0 && attempt < 6; attempt++ {
		var batch []replayCase
		for _, i := range pending {
			batch = append(batch, cases[i])
		}
		lp := filepath.Join(dir, fmt.Sprintf("cases%d.json", attempt))
		b, _ := json.Marshal(batch)
		os.WriteFile(lp, b, 0o644)
		targs := []string{"test", "-vet=off", "-count=1", "-overlay", op, "-run", "^TestVerifReplay$", "-timeout", "60s", "-v"}
		env := ov.goEnv("VERIF_REPLAY=" + lp)
		if o.NativeRace {
			targs = append(targs, "-race")
			env = append(env, "VERIF_REPEAT=300")
		} else if o.NativeRepeat > 0 {
			env = append(env, fmt.Sprintf("VERIF_REPEAT=%d", o.NativeRepeat))
			targs[8] = "300s"
		}
		cmd := osexec.Command("go", append(targs, "./"+o.Pkg)...)
		cmd.Dir = repoDir
		cmd.Env = env
		var out bytes.Buffer
		cmd.Stdout = &out
		cmd.Stderr = &out
		cmd.Run()
		s := out.String()
		fullLog.WriteString(s)
		seen := map[int]bool{}
		for _, m := range caseResRe.FindAllStringSubmatch(s, -1) {
			k, _ := strconv.Atoi(m[1])
			if k < len(pending) {
				sts[pending[k]] = m[2]
				seen[k] = true
			}
		}
		if o.NativeRace {
			// a data race reported while case k ran (between its START and RESULT lines)
			for k := range pending {
				a := strings.Index(s, fmt.Sprintf("VERIF-CASE-START %d ", k))
				b := strings.Index(s, fmt.Sprintf("VERIF-CASE-RESULT %d ", k))
				if a >= 0 && b > a && strings.Contains(s[a:b], "WARNING: DATA RACE") && (sts[pending[k]] == "ok" || sts[pending[k]] == "assume-false") {
					sts[pending[k]] = "race"
				}
			}
		}
		// a case that started but never reported crashed (or hung) the test binary
		last := -1
		for _, m := range caseStartRe.FindAllStringSubmatch(s, -1) {
			k, _ := strconv.Atoi(m[1])
			if k > last {
				last = k
			}
		}
		var next []int
		if last >= 0 && last < len(pending) && !seen[last] {
			if strings.Contains(s, "test timed out") {
				sts[pending[last]] = "hang"
			} else if strings.Contains(s, "all goroutines are asleep") {
				sts[pending[last]] = "hang"
			} else {
				sts[pending[last]] = "crash"
			}
			for k := last + 1; k < len(pending); k++ {
				next = append(next, pending[k])
			}
		} else if last < 0 {
			// build failure or no case ran
			break
		}
		pending = next
	}
	return sts, fullLog.String()
}

func replayFile(verifDir, id, path string) int {
	b, err := os.ReadFile(path)
	if err != nil {
		fmt.Fprintln(os.Stderr, err)
		return 2
	}
	var rf struct {
		Obligation string            `json:"obligation"`
		Params     map[string]int    `json:"params"`
		Tape       map[string]uint64 `json:"tape"`
		Msg        string            `json:"msg"`
	}
	if err := json.Unmarshal(b, &rf); err != nil {
		fmt.Fprintln(os.Stderr, err)
		return 2
	}
	spec, err := loadSpec(verifDir, id)
	if err != nil {
		fmt.Fprintln(os.Stderr, err)
		return 2
	}
	for i := range spec.Obligations {
		o := &spec.Obligations[i]
		if o.ID != rf.Obligation {
			continue
		}
		dir, _ := os.MkdirTemp("", "gosym-replay-")
		defer os.RemoveAll(dir)
		sts, log := nativeReplay(o, verifDir, dir, []replayCase{{Harness: o.Harness, Params: rf.Params, Tape: rf.Tape}})
		fmt.Println(log)
		fmt.Printf("replay of %q: %s\n", rf.Msg, sts[0])
		if sts[0] == "ok" || sts[0] == "assume-false" {
			return 0
		}
		return 1
	}
	fmt.Fprintln(os.Stderr, "obligation not found:", rf.Obligation)
	return 2
}

// ---- evidence ----------------------------------------------------------------

type evRun struct {
	Obligation   string              `json:"obligation"`
	Harness      string              `json:"harness"`
	Pkg          string              `json:"pkg"`
	Params       map[string]int      `json:"params,omitempty"`
	Witness      bool                `json:"witness_twin,omitempty"`
	Verdict      string              `json:"verdict"`
	Bound        string              `json:"bound"`
	Outside      string              `json:"outside,omitempty"`
	Paths        int                 `json:"paths"`
	Completed    int                 `json:"paths_completed"`
	AssumeFalse  int                 `json:"paths_cut_by_assume"`
	Decisions    map[string]int      `json:"decisions"`
	AssertSites  map[string]int      `json:"assert_sites"`
	AssertQ      int                 `json:"assertion_queries"`
	Instr        int64               `json:"ssa_instructions"`
	Solver       string              `json:"solver"`
	Queries      int                 `json:"queries"`
	Sat          int                 `json:"sat"`
	Unsat        int                 `json:"unsat"`
	Unknown      int                 `json:"unknown"`
	SolverS      float64             `json:"solver_s"`
	MaxQueryS    float64             `json:"max_query_s"`
	Covers       map[string]int      `json:"covers,omitempty"`
	Funcs        []string            `json:"functions_encoded"`
	FuncsOther   int                 `json:"functions_encoded_outside_repo"`
	Models       []string            `json:"models_used,omitempty"`
	Seams        []string            `json:"seams,omitempty"`
	Violations   []violation         `json:"violations,omitempty"`
	Inconclusive []string            `json:"inconclusive,omitempty"`
	Samples      []map[string]uint64 `json:"sample_models,omitempty"`
	WallS        float64             `json:"wall_s"`
	Error        string              `json:"error,omitempty"`
}

func runsToEvidence(runs []*runJob) []evRun {
	var out []evRun
	for _, r := range runs {
		e := evRun{Obligation: r.label, Harness: r.obl.Harness, Pkg: r.obl.Pkg, Params: r.params, Witness: r.wit,
			Bound: r.obl.Bound, Outside: r.obl.Outside}
		if r.res == nil {
			e.Verdict = "error"
			e.Error = r.err
			out = append(out, e)
			continue
		}
		x := r.res
		e.Verdict = x.Verdict
		e.Paths, e.Completed, e.AssumeFalse = x.Paths, x.Completed, x.AssumeFalse
		e.Decisions, e.AssertSites, e.AssertQ, e.Instr = x.Decisions, x.AssertSites, x.AssertsSym, x.Instructions
		e.Solver, e.Queries, e.Sat, e.Unsat, e.Unknown = x.Solver, x.SolverStats.Queries, x.SolverStats.Sat, x.SolverStats.Unsat, x.SolverStats.Unknown
		e.SolverS, e.MaxQueryS = x.SolverStats.Seconds, x.SolverStats.MaxQuery
		e.Covers, e.Funcs, e.FuncsOther, e.Models, e.Seams = x.Covers, x.Funcs, x.FuncsOther, x.Models, x.Seams
		e.Inconclusive, e.WallS, e.Error = x.Inconclusive, x.WallS, x.Error
		if r.wit {
			e.Verdict = "witness-reached"
			if len(x.Violations) == 0 {
				e.Verdict = "witness-NOT-reached"
			}
		} else {
			e.Violations = x.Violations
			e.Samples = x.Samples
		}
		out = append(out, e)
	}
	return out
}

func writeEvidence(verifDir, id, tier string, seed int, spec *PropSpec, runs []evRun, nViol, nKnown, nIncon, sampR, sampA int, wall float64, lines []string) {
	states, transitions, queries, unsat := 0, 0, 0, 0
	solverS := 0.0
	completed := 0
	funcs := map[string]bool{}
	var samples []interface{}
	held := 0
	for _, r := range runs {
		states += r.Paths
		for _, n := range r.Decisions {
			transitions += n
		}
		queries += r.Queries
		unsat += r.Unsat
		solverS += r.SolverS
		if !r.Witness {
			completed += r.Completed
			if r.Verdict == "holds" {
				held++
			}
		}
		for _, f := range r.Funcs {
			funcs[f] = true
		}
		if len(samples) < 6 && len(r.Samples) > 0 {
			samples = append(samples, map[string]interface{}{"obligation": r.Obligation, "model_of_one_explored_path": r.Samples[0]})
		}
	}
	if transitions == 0 {
		transitions = states
	}
	if len(samples) == 0 {
		for _, r := range runs {
			samples = append(samples, map[string]interface{}{"obligation": r.Obligation, "verdict": r.Verdict})
			if len(samples) >= 3 {
				break
			}
		}
	}
	var fl []string
	for f := range funcs {
		fl = append(fl, f)
	}
	sort.Strings(fl)
	level := spec.Level
	if level == "" {
		level = "model_checking"
	}
	nObl := 0
	for _, r := range runs {
		if !r.Witness {
			nObl++
		}
	}
	ev := map[string]interface{}{
		"property_id": id,
		"tier":        tier,
		"seed":        seed,
		"level":       level,
		"wall_s":      wall,
		"violations":  nViol,
		"assumptions": spec.Assumptions,
		"coverage": map[string]interface{}{
			"states":                        states,
			"transitions":                   transitions,
			"traces_validated_against_impl": sampA,
			"evaluations":                   states,
			"distinct_nontrivial":           completed,
			"rule":                          "one evaluation = one feasible symbolic path of a harness through the real code (each stands for all inputs satisfying its path condition); non-trivial = the path ran to the end with every assertion on it discharged by the solver (paths cut by an assumption or proved infeasible are not counted)",
			"samples":                       samples,
			"explanation":                   spec.Explanation,
			"technique":                     "bounded symbolic execution of go/ssa of /repo's current tree; path conditions and negated assertions discharged by an SMT solver (bit-vectors of the exact Go widths)",
			"obligations":                   nObl,
			"discharged":                    held,
			"solver_queries":                queries,
			"solver_unsat":                  unsat,
			"solver_seconds":                solverS,
			"functions_encoded":             fl,
			"known_findings_hit":            nKnown,
			"inconclusive":                  nIncon,
			"sample_models_replayed_native": sampR,
			"sample_models_agree_native":    sampA,
			"runs":                          runs,
			"report_lines":                  lines,
			"exhaustive":                    false,
		},
	}
	b, _ := json.MarshalIndent(ev, "", " ")
	os.MkdirAll(filepath.Join(verifDir, "evidence"), 0o755)
	os.WriteFile(filepath.Join(verifDir, "evidence", id+".json"), b, 0o644)
}
