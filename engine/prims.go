package main

// Source of the harness primitives injected into the package under test.
// In symbolic mode the engine intercepts these by name; natively they read
// the counterexample tape (VERIF_TAPE) so that a solver model is replayed
// against the real build.

const primsSource = `package PKG

import (
	"encoding/json"
	"fmt"
	"os"
	"sync"
	"time"
)

var (
	verifMu     sync.Mutex
	verifTape   map[string]uint64
	verifCnt    = map[string]int{}
	verifFailed []string
	verifCovers = map[string]int{}
)

type verifAssumeFalse struct{}

func verifLoadTape() {
	verifTape = map[string]uint64{}
	if p := os.Getenv("VERIF_TAPE"); p != "" {
		b, err := os.ReadFile(p)
		if err != nil {
			panic(err)
		}
		if err := json.Unmarshal(b, &verifTape); err != nil {
			panic(err)
		}
	}
}

func verifNext(label string) uint64 {
	verifMu.Lock()
	defer verifMu.Unlock()
	if verifTape == nil {
		verifLoadTape()
	}
	n := verifCnt[label]
	verifCnt[label] = n + 1
	if n > 0 {
		label = fmt.Sprintf("%s#%d", label, n)
	}
	return verifTape[label]
}

func ndU8(label string) uint8   { return uint8(verifNext(label)) }
func ndU16(label string) uint16 { return uint16(verifNext(label)) }
func ndU32(label string) uint32 { return uint32(verifNext(label)) }
func ndU64(label string) uint64 { return verifNext(label) }
func ndInt(label string) int    { return int(verifNext(label)) }
func ndBool(label string) bool  { return verifNext(label)&1 == 1 }

func ndBytes(label string, n int) []byte {
	out := make([]byte, n)
	for i := range out {
		out[i] = uint8(verifNext(fmt.Sprintf("%s[%d]", label, i)))
	}
	return out
}

func verifAssume(c bool) {
	if !c {
		panic(verifAssumeFalse{})
	}
}

func verifAssert(c bool, msg string) {
	if !c {
		verifMu.Lock()
		verifFailed = append(verifFailed, msg)
		verifMu.Unlock()
		fmt.Println("VERIF-ASSERT-FAIL:", msg)
	}
}

func verifCover(label string) {
	verifMu.Lock()
	verifCovers[label]++
	verifMu.Unlock()
}

func verifKnown(id string, c bool) bool { return c }
func verifSymbolic() bool               { return false }
func verifObserve(label string, v interface{}) {
	fmt.Printf("VERIF-OBSERVE: %s=%v\n", label, v)
}
func verifConcretize(x uint64) uint64 { return x }
func verifIte(c bool, a, b uint64) uint64 {
	if c {
		return a
	}
	return b
}
func verifAnd(a, b bool) bool     { return a && b }
func verifOr(a, b bool) bool      { return a || b }
func verifImplies(a, b bool) bool { return !a || b }
func verifYield()                 {}
var verifParams map[string]int

func verifParam(name string, def int) int {
	if v, ok := verifParams[name]; ok {
		return v
	}
	if s := os.Getenv("VERIF_PARAM_" + name); s != "" {
		var v int
		fmt.Sscanf(s, "%d", &v)
		return v
	}
	return def
}

var verifT0 time.Time

// verifNow: nanoseconds since the first call (natively: real time; in the engine: the logical clock).
func verifNow() int64 {
	verifMu.Lock()
	defer verifMu.Unlock()
	if verifT0.IsZero() {
		verifT0 = time.Now()
	}
	return int64(time.Since(verifT0))
}

// verifSetCase installs the tape and parameters of one replay case.
func verifSetCase(params map[string]int, tape map[string]uint64) {
	verifMu.Lock()
	defer verifMu.Unlock()
	verifTape = tape
	if verifTape == nil {
		verifTape = map[string]uint64{}
	}
	verifParams = params
	verifCnt = map[string]int{}
	verifFailed = nil
	verifCovers = map[string]int{}
}
`

const primsTestSource = `package PKG

import (
	"encoding/json"
	"fmt"
	"os"
	"testing"
)

type verifCase struct {
	Harness string            ` + "`json:\"harness\"`" + `
	Params  map[string]int    ` + "`json:\"params\"`" + `
	Tape    map[string]uint64 ` + "`json:\"tape\"`" + `
}

func verifRunCase(idx int, c verifCase, hs map[string]func()) (status string) {
	h := hs[c.Harness]
	if h == nil {
		return "unknown-harness"
	}
	verifSetCase(c.Params, c.Tape)
	status = "ok"
	func() {
		defer func() {
			if p := recover(); p != nil {
				if _, ok := p.(verifAssumeFalse); ok {
					status = "assume-false"
					return
				}
				fmt.Printf("VERIF-PANIC: %v\n", p)
				status = "panic"
			}
		}()
		h()
	}()
	verifMu.Lock()
	defer verifMu.Unlock()
	if (status == "ok" || status == "assume-false") && len(verifFailed) > 0 { // assumptions are not retroactive
		status = "assert-fail"
	}
	return status
}

func verifReplayMain(t *testing.T, hs map[string]func()) {
	var cases []verifCase
	if p := os.Getenv("VERIF_REPLAY"); p != "" {
		b, err := os.ReadFile(p)
		if err != nil {
			t.Fatal(err)
		}
		if err := json.Unmarshal(b, &cases); err != nil {
			t.Fatal(err)
		}
	} else {
		verifLoadTape()
		cases = []verifCase{{Harness: os.Getenv("VERIF_HARNESS"), Tape: verifTape}}
	}
	repeat := 1
	if s := os.Getenv("VERIF_REPEAT"); s != "" {
		fmt.Sscanf(s, "%d", &repeat)
	}
	for i, c := range cases {
		fmt.Printf("VERIF-CASE-START %d %s\n", i, c.Harness)
		st := "ok"
		for k := 0; k < repeat && (st == "ok" || st == "assume-false"); k++ {
			st = verifRunCase(i, c, hs)
		}
		fmt.Printf("VERIF-CASE-RESULT %d %s\n", i, st)
	}
	fmt.Println("VERIF-REPLAY-DONE")
}
`
