package main

import "golang.org/x/tools/go/ssa"

type ssaGlobal = ssa.Global
type ssaPackage = ssa.Package

func init() {
	harnessPrims["verifParam"] = func(fr *frame, args []value) value {
		name := argStr(args[0])
		if v, ok := curParams[name]; ok {
			return cint(uint64(int64(v)))
		}
		return args[1]
	}
}
