package main

// Logical-clock models of package time (discrete-event time: the clock only
// advances when no goroutine is runnable).

import (
	"go/types"
)

const unixToInternal int64 = (1969*365 + 1969/4 - 1969/100 + 1969/400) * 86400

// monoTime (run parameter MONO_TIME=1): time.Now carries a monotonic reading, as the real one
// does, and Time.Add on such a value advances the monotonic reading only (ext += d); the wall
// field is left as it is.  Exact for everything that observes such values through Sub, Before,
// After, Equal, Compare and IsZero (which use the monotonic reading when both operands carry
// one); NOT for formatting or Unix*().  Avoids the division by 10^9 of the wall-clock
// normalisation, which no solver here decides.
var monoTime bool

const wallToInternal int64 = (1884*365 + 1884/4 - 1884/100 + 1884/400) * 86400

func timeValue(ns int64) value {
	if monoTime {
		abs := timeBase + ns
		sec := abs/1_000_000_000 + unixToInternal - wallToInternal
		nsec := abs % 1_000_000_000
		wall := uint64(1)<<63 | uint64(sec)<<30 | uint64(nsec)
		return structure{cint(wall), cint(uint64(ns + 1)), (*value)(nil)}
	}
	abs := timeBase + ns
	sec := abs / 1_000_000_000
	nsec := abs % 1_000_000_000
	return structure{cint(uint64(nsec)), cint(uint64(sec + unixToInternal)), (*value)(nil)}
}

type timerHandle struct {
	t *timer
	c *channel
}

var timerHandles = map[*value]*timerHandle{}

func init() {
	intrinsics["time.Now"] = func(fr *frame, a []value) value {
		return timeValue(theSched.now)
	}
	intrinsics["(time.Time).Add"] = func(fr *frame, a []value) value {
		t, ok := a[0].(structure)
		if !ok {
			return notHandled{}
		}
		w, ok := t[0].(cint)
		if !ok || uint64(w)>>63 == 0 {
			return notHandled{}
		}
		ext, d := toTerm(t[1], 64), toTerm(a[1], 64)
		sum := mkBin(OpAdd, ext, d)
		zero := mkConst(0, 64)
		ovf := mkBOr(mkBAnd(mkCmp(OpSlt, d, zero), mkCmp(OpSlt, ext, sum)), mkBAnd(mkCmp(OpSlt, zero, d), mkCmp(OpSlt, sum, ext)))
		if theExec.decide(ovf, "time.Add: monotonic reading overflows") {
			panic(unsupported("time.Time.Add overflowing the monotonic reading (outside the MONO_TIME model)"))
		}
		return structure{t[0], fromTerm(sum, true), t[2]}
	}
	intrinsics["time.Sleep"] = func(fr *frame, a []value) value {
		d := int64(asInt64(a[0]))
		if d <= 0 {
			return nil
		}
		g := requireG(fr, "time.Sleep")
		s := theSched
		s.addTimer(d, func() { s.ready(g) })
		s.block(g, "time.Sleep")
		return nil
	}
	intrinsics["time.After"] = func(fr *frame, a []value) value {
		d := int64(asInt64(a[0]))
		s := theSched
		c := newChannel(1, nil)
		s.addTimer(d, func() {
			if len(c.buf) < c.capacity || hasLive(c.recvq) {
				trySend(c, timeValue(s.now))
			}
		})
		return c
	}
	intrinsics["time.NewTimer"] = func(fr *frame, a []value) value {
		d := int64(asInt64(a[0]))
		s := theSched
		c := newChannel(1, nil)
		T := namedType(fr.i.prog, "time", "Timer")
		cell := zero(T)
		st := cell.(structure)
		st[0] = c // field C
		t := s.addTimer(d, func() {
			if len(c.buf) < c.capacity || hasLive(c.recvq) {
				trySend(c, timeValue(s.now))
			}
		})
		p := new(value)
		*p = st
		timerHandles[p] = &timerHandle{t: t, c: c}
		return p
	}
	intrinsics["time.AfterFunc"] = func(fr *frame, a []value) value {
		d := int64(asInt64(a[0]))
		f := a[1]
		s := theSched
		i := fr.i
		T := namedType(fr.i.prog, "time", "Timer")
		cell := zero(T)
		t := s.addTimer(d, func() {
			s.startG("time.AfterFunc callback", 0, func(g *goroutine) {
				call(i, &frame{i: i, g: g}, 0, f, nil, nil)
			})
		})
		p := new(value)
		*p = cell
		timerHandles[p] = &timerHandle{t: t}
		return p
	}
	intrinsics["time.NewTicker"] = func(fr *frame, a []value) value {
		d := int64(asInt64(a[0]))
		if d <= 0 {
			panic(targetPanic{iface{tString, "non-positive interval for NewTicker"}})
		}
		s := theSched
		c := newChannel(1, nil)
		T := namedType(fr.i.prog, "time", "Ticker")
		cell := zero(T)
		st := cell.(structure)
		st[0] = c // field C
		p := new(value)
		*p = st
		h := &timerHandle{c: c}
		var arm func()
		arm = func() {
			h.t = s.addTimer(d, func() {
				if len(c.buf) < c.capacity || hasLive(c.recvq) {
					trySend(c, timeValue(s.now))
				}
				arm()
			})
		}
		arm()
		timerHandles[p] = h
		return p
	}
	intrinsics["(*time.Ticker).Stop"] = func(fr *frame, a []value) value {
		if h := timerHandles[a[0].(*value)]; h != nil && h.t != nil {
			h.t.active = false
		}
		return nil
	}
	intrinsics["(*time.Timer).Stop"] = func(fr *frame, a []value) value {
		h := timerHandles[a[0].(*value)]
		if h == nil {
			return false
		}
		was := h.t.active
		h.t.active = false
		return was
	}
	// Reset with the semantics of a module whose go directive is below 1.23 (/repo: go 1.19):
	// the channel is buffered and NOT drained, a tick already delivered stays in it.
	intrinsics["(*time.Timer).Reset"] = func(fr *frame, a []value) value {
		h := timerHandles[a[0].(*value)]
		if h == nil || h.c == nil {
			panic(unsupported("time.Timer.Reset on a timer not created by NewTimer"))
		}
		d := int64(asInt64(a[1]))
		s := theSched
		was := h.t.active
		h.t.active = false
		c := h.c
		h.t = s.addTimer(d, func() {
			if len(c.buf) < c.capacity || hasLive(c.recvq) {
				trySend(c, timeValue(s.now))
			}
		})
		return was
	}
	intrinsics["time.runtimeNano"] = func(fr *frame, a []value) value { return cint(uint64(theSched.now + 1)) }
	intrinsics["time.now"] = func(fr *frame, a []value) value {
		abs := timeBase + theSched.now
		return tuple{cint(uint64(abs / 1e9)), cint(uint64(abs % 1e9)), cint(uint64(theSched.now + 1))}
	}
	_ = types.Typ
}
