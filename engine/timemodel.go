package main

// Logical-clock models of package time (discrete-event time: the clock only
// advances when no goroutine is runnable).

import (
	"go/types"
)

const unixToInternal int64 = (1969*365 + 1969/4 - 1969/100 + 1969/400) * 86400

func timeValue(ns int64) value {
	abs := timeBase + ns
	sec := abs / 1_000_000_000
	nsec := abs % 1_000_000_000
	return structure{cint(uint64(nsec)), cint(uint64(sec + unixToInternal)), (*value)(nil)}
}

type timerHandle struct {
	t *timer
	c *channel
}

var timerHandles = map[*value]*timerHandle{}

func init() {
	intrinsics["time.Now"] = func(fr *frame, a []value) value {
		return timeValue(theSched.now)
	}
	intrinsics["time.Sleep"] = func(fr *frame, a []value) value {
		d := int64(asInt64(a[0]))
		if d <= 0 {
			return nil
		}
		g := requireG(fr, "time.Sleep")
		s := theSched
		s.addTimer(d, func() { s.ready(g) })
		s.block(g, "time.Sleep")
		return nil
	}
	intrinsics["time.After"] = func(fr *frame, a []value) value {
		d := int64(asInt64(a[0]))
		s := theSched
		c := newChannel(1, nil)
		s.addTimer(d, func() {
			if len(c.buf) < c.capacity || hasLive(c.recvq) {
				trySend(c, timeValue(s.now))
			}
		})
		return c
	}
	intrinsics["time.NewTimer"] = func(fr *frame, a []value) value {
		d := int64(asInt64(a[0]))
		s := theSched
		c := newChannel(1, nil)
		T := namedType(fr.i.prog, "time", "Timer")
		cell := zero(T)
		st := cell.(structure)
		st[0] = c // field C
		t := s.addTimer(d, func() {
			if len(c.buf) < c.capacity || hasLive(c.recvq) {
				trySend(c, timeValue(s.now))
			}
		})
		p := new(value)
		*p = st
		timerHandles[p] = &timerHandle{t: t, c: c}
		return p
	}
	intrinsics["time.AfterFunc"] = func(fr *frame, a []value) value {
		d := int64(asInt64(a[0]))
		f := a[1]
		s := theSched
		i := fr.i
		T := namedType(fr.i.prog, "time", "Timer")
		cell := zero(T)
		t := s.addTimer(d, func() {
			s.startG("time.AfterFunc callback", 0, func(g *goroutine) {
				call(i, &frame{i: i, g: g}, 0, f, nil, nil)
			})
		})
		p := new(value)
		*p = cell
		timerHandles[p] = &timerHandle{t: t}
		return p
	}
	intrinsics["time.NewTicker"] = func(fr *frame, a []value) value {
		d := int64(asInt64(a[0]))
		if d <= 0 {
			panic(targetPanic{iface{tString, "non-positive interval for NewTicker"}})
		}
		s := theSched
		c := newChannel(1, nil)
		T := namedType(fr.i.prog, "time", "Ticker")
		cell := zero(T)
		st := cell.(structure)
		st[0] = c // field C
		p := new(value)
		*p = st
		h := &timerHandle{c: c}
		var arm func()
		arm = func() {
			h.t = s.addTimer(d, func() {
				if len(c.buf) < c.capacity || hasLive(c.recvq) {
					trySend(c, timeValue(s.now))
				}
				arm()
			})
		}
		arm()
		timerHandles[p] = h
		return p
	}
	intrinsics["(*time.Ticker).Stop"] = func(fr *frame, a []value) value {
		if h := timerHandles[a[0].(*value)]; h != nil && h.t != nil {
			h.t.active = false
		}
		return nil
	}
	intrinsics["(*time.Timer).Stop"] = func(fr *frame, a []value) value {
		h := timerHandles[a[0].(*value)]
		if h == nil {
			return false
		}
		was := h.t.active
		h.t.active = false
		return was
	}
	intrinsics["(*time.Timer).Reset"] = func(fr *frame, a []value) value {
		panic(unsupported("time.Timer.Reset"))
	}
	intrinsics["time.runtimeNano"] = func(fr *frame, a []value) value { return cint(uint64(theSched.now + 1)) }
	intrinsics["time.now"] = func(fr *frame, a []value) value {
		abs := timeBase + theSched.now
		return tuple{cint(uint64(abs / 1e9)), cint(uint64(abs % 1e9)), cint(uint64(theSched.now + 1))}
	}
	_ = types.Typ
}
