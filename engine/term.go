package main

// Hash-consed SMT terms over bit-vectors (exact Go widths, wrap-around) and Bool.

import (
	"fmt"
	"sort"
	"strings"
)

type Op uint8

const (
	OpVar Op = iota
	OpConst
	OpTrue
	OpFalse
	OpAdd
	OpSub
	OpMul
	OpUDiv
	OpURem
	OpSDiv
	OpSRem
	OpAnd
	OpOr
	OpXor
	OpNot
	OpNeg
	OpShl
	OpLShr
	OpAShr
	OpConcat
	OpExtract
	OpZext
	OpSext
	OpEq
	OpUlt
	OpUle
	OpSlt
	OpSle
	OpBAnd
	OpBOr
	OpBNot
	OpIte
)

var opNames = map[Op]string{
	OpAdd: "bvadd", OpSub: "bvsub", OpMul: "bvmul", OpUDiv: "bvudiv", OpURem: "bvurem",
	OpSDiv: "bvsdiv", OpSRem: "bvsrem", OpAnd: "bvand", OpOr: "bvor", OpXor: "bvxor",
	OpNot: "bvnot", OpNeg: "bvneg", OpShl: "bvshl", OpLShr: "bvlshr", OpAShr: "bvashr",
	OpConcat: "concat", OpEq: "=", OpUlt: "bvult", OpUle: "bvule", OpSlt: "bvslt", OpSle: "bvsle",
	OpBAnd: "and", OpBOr: "or", OpBNot: "not", OpIte: "ite",
}

// Term is an immutable hash-consed node. w == 0 means Bool.
type Term struct {
	op   Op
	w    int
	args []*Term
	a, b int    // extract hi/lo; ext amount
	val  uint64 // OpConst
	name string // OpVar
	id   int
}

var (
	termTab  = map[string]*Term{}
	termList []*Term
	tTrue    *Term
	tFalse   *Term
)

func init() {
	tTrue = mk(OpTrue, 0, nil, 0, 0, 0, "")
	tFalse = mk(OpFalse, 0, nil, 0, 0, 0, "")
}

func mk(op Op, w int, args []*Term, a, b int, val uint64, name string) *Term {
	var sb strings.Builder
	fmt.Fprintf(&sb, "%d:%d:%d:%d:%d:%s", op, w, a, b, val, name)
	for _, x := range args {
		fmt.Fprintf(&sb, ",%d", x.id)
	}
	k := sb.String()
	if t, ok := termTab[k]; ok {
		return t
	}
	t := &Term{op: op, w: w, args: args, a: a, b: b, val: val, name: name, id: len(termList)}
	termTab[k] = t
	termList = append(termList, t)
	return t
}

func mask(w int) uint64 {
	if w >= 64 {
		return ^uint64(0)
	}
	return (uint64(1) << uint(w)) - 1
}

func sext64(v uint64, w int) int64 {
	if w >= 64 {
		return int64(v)
	}
	sh := uint(64 - w)
	return int64(v<<sh) >> sh
}

func mkVar(name string, w int) *Term { return mk(OpVar, w, nil, 0, 0, 0, name) }
func mkBoolVar(name string) *Term   { return mk(OpVar, 0, nil, 0, 0, 0, name) }

func mkConst(v uint64, w int) *Term {
	if w <= 0 || w > 64 {
		panic(fmt.Sprintf("mkConst: bad width %d", w))
	}
	return mk(OpConst, w, nil, 0, 0, v&mask(w), "")
}

func mkBool(b bool) *Term {
	if b {
		return tTrue
	}
	return tFalse
}

func (t *Term) isConst() bool { return t.op == OpConst }
func (t *Term) isBoolConst() bool {
	return t.op == OpTrue || t.op == OpFalse
}

// evalBin computes a binary bit-vector op on constants.
func evalBin(op Op, x, y uint64, w int) uint64 {
	m := mask(w)
	switch op {
	case OpAdd:
		return (x + y) & m
	case OpSub:
		return (x - y) & m
	case OpMul:
		return (x * y) & m
	case OpUDiv:
		if y == 0 {
			return m
		}
		return (x / y) & m
	case OpURem:
		if y == 0 {
			return x
		}
		return (x % y) & m
	case OpSDiv:
		sx, sy := sext64(x, w), sext64(y, w)
		if sy == 0 {
			if sx < 0 {
				return 1
			}
			return m
		}
		if sy == -1 {
			return uint64(-sx) & m
		}
		return uint64(sx/sy) & m
	case OpSRem:
		sx, sy := sext64(x, w), sext64(y, w)
		if sy == 0 {
			return x
		}
		if sy == -1 {
			return 0
		}
		return uint64(sx%sy) & m
	case OpAnd:
		return x & y
	case OpOr:
		return x | y
	case OpXor:
		return x ^ y
	case OpShl:
		if y >= uint64(w) {
			return 0
		}
		return (x << y) & m
	case OpLShr:
		if y >= uint64(w) {
			return 0
		}
		return (x >> y) & m
	case OpAShr:
		sx := sext64(x, w)
		if y >= uint64(w) {
			y = uint64(w - 1)
		}
		return uint64(sx>>y) & m
	}
	panic("evalBin")
}

func mkBin(op Op, x, y *Term) *Term {
	if x.w != y.w || x.w == 0 {
		panic(fmt.Sprintf("mkBin %v: width mismatch %d/%d", opNames[op], x.w, y.w))
	}
	w := x.w
	if x.isConst() && y.isConst() {
		return mkConst(evalBin(op, x.val, y.val, w), w)
	}
	if op == OpAdd {
		return mkSum(x, y)
	}
	switch op {
	case OpAdd, OpOr, OpXor:
		if x.isConst() && !y.isConst() {
			x, y = y, x
		}
		if x.isConst() && x.val == 0 {
			return y
		}
		if y.isConst() && y.val == 0 {
			return x
		}
		if op == OpOr && x == y {
			return x
		}
		if op == OpOr {
			for _, pr := range [2][2]*Term{{x, y}, {y, x}} {
				a, b := pr[0], pr[1]
				if a.op == OpConcat && a.args[1].isConst() && a.args[1].val == 0 {
					k := a.args[1].w
					if b.op == OpZext && b.args[0].w <= k {
						return mkConcat(a.args[0], mkZext(b.args[0], k))
					}
					if b.w == k+a.args[0].w && termUB(b) <= mask(k) {
						return mkConcat(a.args[0], mkExtract(b, k-1, 0))
					}
				}
			}
		}
		if op == OpXor && x == y {
			return mkConst(0, w)
		}
	case OpSub:
		if y.isConst() && y.val == 0 {
			return x
		}
		if x == y {
			return mkConst(0, w)
		}
		// (a + c) - a = c ; (a + c1) - (a + c2) = c1 - c2
		if x.op == OpAdd && x.args[1].isConst() {
			if x.args[0] == y {
				return x.args[1]
			}
			if y.op == OpAdd && y.args[1].isConst() && x.args[0] == y.args[0] {
				return mkConst(x.args[1].val-y.args[1].val, w)
			}
		}
	case OpAnd:
		if x.isConst() {
			x, y = y, x
		}
		if y.isConst() {
			if y.val == 0 {
				return y
			}
			if y.val == mask(w) {
				return x
			}
			// and(x, 2^k-1) = zext(extract(x, k-1, 0))
			if y.val&(y.val+1) == 0 && y.val != 0 {
				k := 0
				for (uint64(1)<<uint(k))-1 != y.val {
					k++
				}
				return mkZext(mkExtract(x, k-1, 0), w)
			}
			// and(zext(z), c) where c covers all of z's bits
			if x.op == OpZext && y.val&mask(x.args[0].w) == mask(x.args[0].w) {
				return x
			}
		}
		if x == y {
			return x
		}
	case OpMul:
		if x.isConst() {
			x, y = y, x
		}
		if y.isConst() {
			if y.val == 0 {
				return y
			}
			if y.val == 1 {
				return x
			}
			// multiply by power of two -> shift (helps bit-blasting)
			if y.val&(y.val-1) == 0 {
				k := 0
				for (uint64(1) << uint(k)) != y.val {
					k++
				}
				return mkBin(OpShl, x, mkConst(uint64(k), w))
			}
		}
	case OpShl, OpLShr:
		if y.isConst() {
			if y.val == 0 {
				return x
			}
			if y.val >= uint64(w) {
				return mkConst(0, w)
			}
			k := int(y.val)
			if op == OpShl && x.op == OpAdd {
				// shl distributes over addition modulo 2^w
				return mkSum(mkBin(OpShl, x.args[0], y), mkBin(OpShl, x.args[1], y))
			}
			if op == OpShl {
				// shl(x,k) = concat(extract(w-k-1,0,x), 0_k)
				return mkConcat(mkExtract(x, w-k-1, 0), mkConst(0, k))
			}
			return mkZext(mkExtract(x, w-1, k), w)
		}
		if x.isConst() && x.val == 0 {
			return x
		}
	case OpAShr:
		if y.isConst() && y.val == 0 {
			return x
		}
	case OpUDiv:
		if y.isConst() && y.val == 1 {
			return x
		}
		if y.isConst() && y.val != 0 && x.op == OpZext && y.val <= mask(x.args[0].w) && y.val&(y.val-1) != 0 {
			in := x.args[0]
			return mkZext(mkBin(OpUDiv, in, mkConst(y.val, in.w)), w)
		}
		if y.isConst() && y.val != 0 && y.val&(y.val-1) == 0 {
			k := 0
			for (uint64(1) << uint(k)) != y.val {
				k++
			}
			return mkBin(OpLShr, x, mkConst(uint64(k), w))
		}
	case OpURem:
		if y.isConst() && y.val != 0 && y.val&(y.val-1) == 0 {
			return mkBin(OpAnd, x, mkConst(y.val-1, w))
		}
		if y.isConst() && y.val != 0 && x.op == OpZext && y.val <= mask(x.args[0].w) {
			in := x.args[0]
			return mkZext(mkBin(OpURem, in, mkConst(y.val, in.w)), w)
		}
	}
	return mk(op, w, []*Term{x, y}, 0, 0, 0, "")
}

// mkSum builds x+y with addition normalised modulo associativity and commutativity:
// a left-nested chain of the non-constant addends sorted by term id, constant last.
func addends(t *Term, out *[]*Term, c *uint64) {
	for t.op == OpAdd {
		r := t.args[1]
		if r.isConst() {
			*c += r.val
		} else {
			*out = append(*out, r)
		}
		t = t.args[0]
	}
	if t.isConst() {
		*c += t.val
	} else {
		*out = append(*out, t)
	}
}

func mkSum(x, y *Term) *Term {
	if x.w != y.w {
		panic("mkSum: width mismatch")
	}
	w := x.w
	var ts []*Term
	var c uint64
	addends(x, &ts, &c)
	addends(y, &ts, &c)
	c &= mask(w)
	sort.Slice(ts, func(i, j int) bool { return ts[i].id < ts[j].id })
	if len(ts) == 0 {
		return mkConst(c, w)
	}
	acc := ts[0]
	for _, t := range ts[1:] {
		acc = mk(OpAdd, w, []*Term{acc, t}, 0, 0, 0, "")
	}
	if c != 0 {
		acc = mk(OpAdd, w, []*Term{acc, mkConst(c, w)}, 0, 0, 0, "")
	}
	return acc
}

func mkNot(x *Term) *Term {
	if x.isConst() {
		return mkConst(^x.val, x.w)
	}
	if x.op == OpNot {
		return x.args[0]
	}
	return mk(OpNot, x.w, []*Term{x}, 0, 0, 0, "")
}

func mkNeg(x *Term) *Term {
	if x.isConst() {
		return mkConst(-x.val, x.w)
	}
	return mk(OpNeg, x.w, []*Term{x}, 0, 0, 0, "")
}

func mkConcat(hi, lo *Term) *Term {
	w := hi.w + lo.w
	if hi.isConst() && lo.isConst() && w <= 64 {
		return mkConst(hi.val<<uint(lo.w)|lo.val, w)
	}
	if hi.isConst() && hi.val == 0 && w <= 64 {
		return mkZext(lo, w)
	}
	if hi.op == OpNot && lo.op == OpNot {
		return mkNot(mkConcat(hi.args[0], lo.args[0]))
	}
	// concat(extract(x,h,m+1), extract(x,m,l)) = extract(x,h,l)
	if hi.op == OpExtract && lo.op == OpExtract && hi.args[0] == lo.args[0] && hi.b == lo.a+1 {
		return mkExtract(hi.args[0], hi.a, lo.b)
	}
	return mk(OpConcat, w, []*Term{hi, lo}, 0, 0, 0, "")
}

func mkExtract(x *Term, hi, lo int) *Term {
	if hi < lo || hi >= x.w || lo < 0 {
		panic(fmt.Sprintf("mkExtract bad range [%d:%d] of %d", hi, lo, x.w))
	}
	if lo == 0 && hi == x.w-1 {
		return x
	}
	w := hi - lo + 1
	switch x.op {
	case OpConst:
		return mkConst(x.val>>uint(lo), w)
	case OpExtract:
		return mkExtract(x.args[0], x.b+hi, x.b+lo)
	case OpZext:
		in := x.args[0]
		if hi < in.w {
			return mkExtract(in, hi, lo)
		}
		if lo >= in.w {
			return mkConst(0, w)
		}
		return mkZext(mkExtract(in, in.w-1, lo), w)
	case OpSext:
		in := x.args[0]
		if hi < in.w {
			return mkExtract(in, hi, lo)
		}
	case OpConcat:
		h, l := x.args[0], x.args[1]
		if hi < l.w {
			return mkExtract(l, hi, lo)
		}
		if lo >= l.w {
			return mkExtract(h, hi-l.w, lo-l.w)
		}
		return mkConcat(mkExtract(h, hi-l.w, 0), mkExtract(l, l.w-1, lo))
	case OpAnd, OpOr, OpXor:
		return mkBin(x.op, mkExtract(x.args[0], hi, lo), mkExtract(x.args[1], hi, lo))
	case OpNot:
		return mkNot(mkExtract(x.args[0], hi, lo))
	case OpIte:
		if x.args[1].isConst() || x.args[2].isConst() {
			return mkIte(x.args[0], mkExtract(x.args[1], hi, lo), mkExtract(x.args[2], hi, lo))
		}
	}
	return mk(OpExtract, w, []*Term{x}, hi, lo, 0, "")
}

func mkZext(x *Term, w int) *Term {
	if w == x.w {
		return x
	}
	if w < x.w {
		panic("mkZext: narrowing")
	}
	if x.isConst() {
		return mkConst(x.val, w)
	}
	if x.op == OpZext {
		return mkZext(x.args[0], w)
	}
	return mk(OpZext, w, []*Term{x}, w-x.w, 0, 0, "")
}

func mkSext(x *Term, w int) *Term {
	if w == x.w {
		return x
	}
	if w < x.w {
		panic("mkSext: narrowing")
	}
	if x.isConst() {
		return mkConst(uint64(sext64(x.val, x.w)), w)
	}
	if x.op == OpZext {
		// sign bit is 0
		return mkZext(x.args[0], w)
	}
	return mk(OpSext, w, []*Term{x}, w-x.w, 0, 0, "")
}

// mkResize converts x to width w: truncation, or zero/sign extension.
func mkResize(x *Term, w int, signed bool) *Term {
	if w == x.w {
		return x
	}
	if w < x.w {
		return mkExtract(x, w-1, 0)
	}
	if signed {
		return mkSext(x, w)
	}
	return mkZext(x, w)
}

func mkEq(x, y *Term) *Term {
	if x.w != y.w {
		panic(fmt.Sprintf("mkEq: width mismatch %d/%d", x.w, y.w))
	}
	if x == y {
		return tTrue
	}
	if x.w == 0 {
		// Bool equality
		if x.isBoolConst() {
			x, y = y, x
		}
		if y == tTrue {
			return x
		}
		if y == tFalse {
			return mkBNot(x)
		}
		return mk(OpEq, 0, []*Term{x, y}, 0, 0, 0, "")
	}
	if x.isConst() && y.isConst() {
		return mkBool(x.val == y.val)
	}
	if x.isConst() {
		x, y = y, x
	}
	if y.isConst() {
		if y.val > termUB(x) || y.val < termLB(x) {
			return tFalse
		}
		switch x.op {
		case OpZext:
			in := x.args[0]
			if y.val&^mask(in.w) != 0 {
				return tFalse
			}
			return mkEq(in, mkConst(y.val, in.w))
		case OpIte:
			if x.args[1].isConst() && x.args[2].isConst() {
				a, b := x.args[1].val == y.val, x.args[2].val == y.val
				switch {
				case a && b:
					return tTrue
				case a && !b:
					return x.args[0]
				case !a && b:
					return mkBNot(x.args[0])
				default:
					return tFalse
				}
			}
			if x.args[1].isConst() || x.args[2].isConst() {
				return mkIte(x.args[0], mkEq(x.args[1], y), mkEq(x.args[2], y))
			}
		case OpConcat:
			h, l := x.args[0], x.args[1]
			return mkBAnd(mkEq(h, mkConst(y.val>>uint(l.w), h.w)), mkEq(l, mkConst(y.val, l.w)))
		}
	}
	if x.id > y.id {
		x, y = y, x
	}
	return mk(OpEq, 0, []*Term{x, y}, 0, 0, 0, "")
}

// termUB returns an upper bound of t read as an unsigned number (cheap, syntactic).
var ubMemo = map[*Term]uint64{}

func termUB(t *Term) uint64 {
	if t.w == 0 {
		return 1
	}
	if v, ok := ubMemo[t]; ok {
		return v
	}
	m := mask(t.w)
	r := m
	switch t.op {
	case OpConst:
		r = t.val
	case OpZext:
		r = termUB(t.args[0])
	case OpURem:
		if t.args[1].isConst() && t.args[1].val > 0 {
			r = t.args[1].val - 1
		}
		if a := termUB(t.args[0]); a < r {
			r = a
		}
	case OpUDiv:
		if t.args[1].isConst() && t.args[1].val > 0 {
			r = termUB(t.args[0]) / t.args[1].val
		}
	case OpAnd:
		a, b := termUB(t.args[0]), termUB(t.args[1])
		if a < b {
			r = a
		} else {
			r = b
		}
	case OpOr, OpXor:
		a, b := termUB(t.args[0]), termUB(t.args[1])
		if b > a {
			a = b
		}
		k := uint64(1)
		for k <= a && k != 0 {
			k <<= 1
		}
		if k != 0 && k-1 < r {
			r = k - 1
		}
	case OpAdd:
		a, b := termUB(t.args[0]), termUB(t.args[1])
		if s := a + b; s >= a && s <= m {
			r = s
		}
	case OpMul:
		a, b := termUB(t.args[0]), termUB(t.args[1])
		if a == 0 || b == 0 {
			r = 0
		} else if a <= m/b {
			r = a * b
		}
	case OpLShr:
		if t.args[1].isConst() && t.args[1].val < 64 {
			r = termUB(t.args[0]) >> t.args[1].val
		} else {
			r = termUB(t.args[0])
		}
	case OpExtract:
		if t.b == 0 {
			if a := termUB(t.args[0]); a < r {
				r = a
			}
		} else if t.b < 64 {
			if a := termUB(t.args[0]) >> uint(t.b); a < r {
				r = a
			}
		}
	case OpConcat:
		hi, lo := t.args[0], t.args[1]
		if lo.w < 64 && t.w <= 64 {
			h := termUB(hi)
			if h <= (m >> uint(lo.w)) {
				if v := h<<uint(lo.w) | mask(lo.w); v < r {
					r = v
				}
			}
		}
	case OpIte:
		a, b := termUB(t.args[1]), termUB(t.args[2])
		if b > a {
			a = b
		}
		r = a
	}
	if r > m {
		r = m
	}
	ubMemo[t] = r
	return r
}

// termLB returns a lower bound of t read as an unsigned number (cheap, syntactic).
func termLB(t *Term) uint64 {
	switch t.op {
	case OpConst:
		return t.val
	case OpZext:
		return termLB(t.args[0])
	case OpAdd:
		a, b := termUB(t.args[0]), termUB(t.args[1])
		if s := a + b; s >= a && s <= mask(t.w) { // no wrap-around possible
			return termLB(t.args[0]) + termLB(t.args[1])
		}
	case OpIte:
		a, b := termLB(t.args[1]), termLB(t.args[2])
		if b < a {
			a = b
		}
		return a
	case OpConcat:
		if t.w <= 64 {
			return termLB(t.args[0])<<uint(t.args[1].w) | termLB(t.args[1])
		}
	}
	return 0
}

func mkCmp(op Op, x, y *Term) *Term {
	if x.w != y.w {
		panic("mkCmp: width mismatch")
	}
	w := x.w
	// cheap range reasoning against constants
	if y.isConst() && !x.isConst() {
		ub := termUB(x)
		lb := termLB(x)
		switch op {
		case OpUlt:
			if lb >= y.val {
				return tFalse
			}
		case OpUle:
			if lb > y.val {
				return tFalse
			}
		}
		switch op {
		case OpUlt:
			if ub < y.val {
				return tTrue
			}
		case OpUle:
			if ub <= y.val {
				return tTrue
			}
		case OpSlt, OpSle:
			if sext64(y.val, w) >= 0 && ub <= mask(w)>>1 {
				// both non-negative: same as unsigned
				if op == OpSlt {
					return mkCmp(OpUlt, x, y)
				}
				return mkCmp(OpUle, x, y)
			}
		}
	}
	if x.isConst() && !y.isConst() {
		ub := termUB(y)
		lb := termLB(y)
		switch op {
		case OpUlt: // c < y
			if x.val < lb {
				return tTrue
			}
		case OpUle:
			if x.val <= lb {
				return tTrue
			}
		}
		switch op {
		case OpUlt: // c < y
			if ub <= x.val {
				return tFalse
			}
		case OpUle:
			if ub < x.val {
				return tFalse
			}
		case OpSlt, OpSle:
			if sext64(x.val, w) >= 0 && ub <= mask(w)>>1 {
				if op == OpSlt {
					return mkCmp(OpUlt, x, y)
				}
				return mkCmp(OpUle, x, y)
			}
		}
	}
	if x.isConst() && y.isConst() {
		switch op {
		case OpUlt:
			return mkBool(x.val < y.val)
		case OpUle:
			return mkBool(x.val <= y.val)
		case OpSlt:
			return mkBool(sext64(x.val, w) < sext64(y.val, w))
		case OpSle:
			return mkBool(sext64(x.val, w) <= sext64(y.val, w))
		}
	}
	if x == y {
		return mkBool(op == OpUle || op == OpSle)
	}
	// narrow comparisons of zero-extended values against constants
	if x.op == OpZext && y.isConst() {
		in := x.args[0]
		if y.val <= mask(in.w) && (op == OpUlt || op == OpUle || sext64(y.val, w) >= 0) {
			o := op
			if o == OpSlt {
				o = OpUlt
			} else if o == OpSle {
				o = OpUle
			}
			return mkCmp(o, in, mkConst(y.val, in.w))
		}
		if op == OpUlt || op == OpUle {
			return tTrue
		}
	}
	if y.op == OpZext && x.isConst() {
		in := y.args[0]
		if x.val <= mask(in.w) && (op == OpUlt || op == OpUle || sext64(x.val, w) >= 0) {
			o := op
			if o == OpSlt {
				o = OpUlt
			} else if o == OpSle {
				o = OpUle
			}
			return mkCmp(o, mkConst(x.val, in.w), in)
		}
		if op == OpUlt || op == OpUle {
			return tFalse
		}
	}
	if x.op == OpZext && y.op == OpZext && x.args[0].w == y.args[0].w {
		o := op
		if o == OpSlt {
			o = OpUlt
		} else if o == OpSle {
			o = OpUle
		}
		return mkCmp(o, x.args[0], y.args[0])
	}
	switch op {
	case OpUlt:
		if y.isConst() && y.val == 0 {
			return tFalse
		}
	case OpUle:
		if x.isConst() && x.val == 0 {
			return tTrue
		}
		if y.isConst() && y.val == mask(w) {
			return tTrue
		}
	}
	return mk(op, 0, []*Term{x, y}, 0, 0, 0, "")
}

func mkBNot(x *Term) *Term {
	switch x.op {
	case OpTrue:
		return tFalse
	case OpFalse:
		return tTrue
	case OpBNot:
		return x.args[0]
	}
	return mk(OpBNot, 0, []*Term{x}, 0, 0, 0, "")
}

func mkBAnd(x, y *Term) *Term {
	if x == tFalse || y == tFalse {
		return tFalse
	}
	if x == tTrue {
		return y
	}
	if y == tTrue {
		return x
	}
	if x == y {
		return x
	}
	if (x.op == OpBNot && x.args[0] == y) || (y.op == OpBNot && y.args[0] == x) {
		return tFalse
	}
	return mk(OpBAnd, 0, []*Term{x, y}, 0, 0, 0, "")
}

func mkBOr(x, y *Term) *Term {
	if x == tTrue || y == tTrue {
		return tTrue
	}
	if x == tFalse {
		return y
	}
	if y == tFalse {
		return x
	}
	if x == y {
		return x
	}
	if (x.op == OpBNot && x.args[0] == y) || (y.op == OpBNot && y.args[0] == x) {
		return tTrue
	}
	return mk(OpBOr, 0, []*Term{x, y}, 0, 0, 0, "")
}

func mkIte(c, x, y *Term) *Term {
	if x.w != y.w {
		panic("mkIte: width mismatch")
	}
	if c == tTrue {
		return x
	}
	if c == tFalse {
		return y
	}
	if x == y {
		return x
	}
	if x.w == 0 {
		if x == tTrue && y == tFalse {
			return c
		}
		if x == tFalse && y == tTrue {
			return mkBNot(c)
		}
		if x == tTrue {
			return mkBOr(c, y)
		}
		if y == tFalse {
			return mkBAnd(c, x)
		}
		if x == tFalse {
			return mkBAnd(mkBNot(c), y)
		}
		if y == tTrue {
			return mkBOr(mkBNot(c), x)
		}
	}
	if c.op == OpBNot {
		return mkIte(c.args[0], y, x)
	}
	return mk(OpIte, x.w, []*Term{c, x, y}, 0, 0, 0, "")
}

// ---- printing --------------------------------------------------------------

func sortStr(w int) string {
	if w == 0 {
		return "Bool"
	}
	return fmt.Sprintf("(_ BitVec %d)", w)
}

func smtSym(name string) string {
	return "|" + strings.NewReplacer("|", "!", "\\", "!").Replace(name) + "|"
}

// ref returns the symbol by which t is referred to in solver input.
func (t *Term) ref() string {
	switch t.op {
	case OpVar:
		return smtSym(t.name)
	case OpConst:
		return fmt.Sprintf("(_ bv%d %d)", t.val, t.w)
	case OpTrue:
		return "true"
	case OpFalse:
		return "false"
	}
	return fmt.Sprintf("t%d", t.id)
}

// body returns the defining expression of a non-leaf term in terms of refs.
func (t *Term) body() string {
	var sb strings.Builder
	switch t.op {
	case OpExtract:
		fmt.Fprintf(&sb, "((_ extract %d %d) %s)", t.a, t.b, t.args[0].ref())
	case OpZext:
		fmt.Fprintf(&sb, "((_ zero_extend %d) %s)", t.a, t.args[0].ref())
	case OpSext:
		fmt.Fprintf(&sb, "((_ sign_extend %d) %s)", t.a, t.args[0].ref())
	default:
		sb.WriteString("(")
		sb.WriteString(opNames[t.op])
		for _, a := range t.args {
			sb.WriteString(" ")
			sb.WriteString(a.ref())
		}
		sb.WriteString(")")
	}
	return sb.String()
}

// String renders a term fully inlined (debugging, small terms only).
func (t *Term) String() string {
	return t.str(0)
}

func (t *Term) str(d int) string {
	if len(t.args) == 0 {
		return t.ref()
	}
	if d > 6 {
		return "…"
	}
	var sb strings.Builder
	sb.WriteString("(")
	switch t.op {
	case OpExtract:
		fmt.Fprintf(&sb, "extract[%d:%d]", t.a, t.b)
	case OpZext:
		fmt.Fprintf(&sb, "zext%d", t.w)
	case OpSext:
		fmt.Fprintf(&sb, "sext%d", t.w)
	default:
		sb.WriteString(opNames[t.op])
	}
	for _, a := range t.args {
		sb.WriteString(" ")
		sb.WriteString(a.str(d + 1))
	}
	sb.WriteString(")")
	return sb.String()
}

// evalTerm evaluates t under a model (var name -> value). Used to cross-check
// solver models and by concrete mode.
func evalTerm(t *Term, model map[string]uint64, memo map[*Term]uint64) uint64 {
	if v, ok := memo[t]; ok {
		return v
	}
	var r uint64
	b2u := func(b bool) uint64 {
		if b {
			return 1
		}
		return 0
	}
	arg := func(i int) uint64 { return evalTerm(t.args[i], model, memo) }
	switch t.op {
	case OpVar:
		r = model[t.name]
		if t.w > 0 {
			r &= mask(t.w)
		} else {
			r &= 1
		}
	case OpConst:
		r = t.val
	case OpTrue:
		r = 1
	case OpFalse:
		r = 0
	case OpAdd, OpSub, OpMul, OpUDiv, OpURem, OpSDiv, OpSRem, OpAnd, OpOr, OpXor, OpShl, OpLShr, OpAShr:
		r = evalBin(t.op, arg(0), arg(1), t.w)
	case OpNot:
		r = ^arg(0) & mask(t.w)
	case OpNeg:
		r = -arg(0) & mask(t.w)
	case OpConcat:
		r = (arg(0)<<uint(t.args[1].w) | arg(1)) & mask(t.w)
	case OpExtract:
		r = (arg(0) >> uint(t.b)) & mask(t.w)
	case OpZext:
		r = arg(0)
	case OpSext:
		r = uint64(sext64(arg(0), t.args[0].w)) & mask(t.w)
	case OpEq:
		r = b2u(arg(0) == arg(1))
	case OpUlt:
		r = b2u(arg(0) < arg(1))
	case OpUle:
		r = b2u(arg(0) <= arg(1))
	case OpSlt:
		r = b2u(sext64(arg(0), t.args[0].w) < sext64(arg(1), t.args[0].w))
	case OpSle:
		r = b2u(sext64(arg(0), t.args[0].w) <= sext64(arg(1), t.args[0].w))
	case OpBAnd:
		r = arg(0) & arg(1)
	case OpBOr:
		r = arg(0) | arg(1)
	case OpBNot:
		r = 1 - arg(0)
	case OpIte:
		if arg(0) == 1 {
			r = arg(1)
		} else {
			r = arg(2)
		}
	default:
		panic("evalTerm: op")
	}
	memo[t] = r
	return r
}

// termVars collects the variables occurring in t.
func termVars(t *Term, seen map[*Term]bool, out *[]*Term) {
	if seen[t] {
		return
	}
	seen[t] = true
	if t.op == OpVar {
		*out = append(*out, t)
		return
	}
	for _, a := range t.args {
		termVars(a, seen, out)
	}
}
