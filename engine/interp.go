package main

// Symbolic SSA interpreter core (structure follows x/tools/go/ssa/interp).

import (
	"fmt"
	"go/token"
	"go/types"
	"os"
	"runtime"
	"runtime/debug"
	"slices"
	"strings"

	"golang.org/x/tools/go/ssa"
)

type continuation int

const (
	kNext continuation = iota
	kReturn
	kJump
)

type interpreter struct {
	prog     *ssa.Program
	globals  map[*ssa.Global]*value
	inited   map[*ssa.Package]bool
	initing  int
	trace    bool
	instrs   int64
	funcs    map[string]bool // functions executed (for evidence)
	maxSteps int64
}

type deferred struct {
	fn    value
	args  []value
	instr *ssa.Defer
	tail  *deferred
}

type frame struct {
	i                *interpreter
	g                *goroutine
	caller           *frame
	fn               *ssa.Function
	block, prevBlock *ssa.BasicBlock
	env              map[ssa.Value]value
	locals           []value
	defers           *deferred
	result           value
	panicking        bool
	panic            interface{}
	phitemps         []value
	loopCount        map[*ssa.BasicBlock]int
	depth            int
}

// engine-level control-flow panics (never visible to the target program)
type notHandled struct{}

type killG struct{}
type abortRun struct {
	kind string // "infeasible", "unsupported", "unwind", "engine", "assume", "done"
	msg  string
}

func isControlPanic(p interface{}) bool {
	switch p.(type) {
	case killG, abortRun:
		return true
	}
	return false
}

func (fr *frame) get(key ssa.Value) value {
	switch key := key.(type) {
	case nil:
		return nil
	case *ssa.Function, *ssa.Builtin:
		return key
	case *ssa.Const:
		return constValue(key)
	case *ssa.Global:
		return fr.i.globalAddr(key)
	}
	if r, ok := fr.env[key]; ok {
		return r
	}
	panic(fmt.Sprintf("get: no value for %T: %v in %v", key, key.Name(), fr.fn))
}

// globalAddr returns the cell of a global, initialising its package lazily.
func (i *interpreter) globalAddr(g *ssa.Global) *value {
	if r, ok := i.globals[g]; ok {
		return r
	}
	pkg := g.Pkg
	i.ensureInit(pkg)
	if r, ok := i.globals[g]; ok {
		return r
	}
	panic("global not allocated: " + g.String())
}

func (i *interpreter) ensureInit(pkg *ssa.Package) {
	if i.inited[pkg] {
		return
	}
	i.inited[pkg] = true
	for _, m := range pkg.Members {
		if g, ok := m.(*ssa.Global); ok {
			cell := zero(mustDeref(g.Type()))
			i.globals[g] = &cell
		}
	}
	if over := globalOverrides[pkg.Pkg.Path()]; over != nil {
		over(i, pkg)
		return
	}
	initFn := pkg.Func("init")
	if initFn == nil {
		return
	}
	// Package initialisation is concrete and path-independent: run it outside
	// the undo log so that it is done once per process.
	saved := undoEnabled
	undoEnabled = false
	i.initing++
	defer func() {
		i.initing--
		undoEnabled = saved
		if p := recover(); p != nil {
			if ab, ok := p.(abortRun); ok && (ab.kind == "engine" || ab.kind == "unsupported" || ab.kind == "unwind") {
				// an initialiser the engine cannot run: its globals keep what was set so far;
				// recorded, and fatal only if the harness later depends on it
				initFailures[pkg.Pkg.Path()] = describePanic(p)
				return
			}
			if isControlPanic(p) {
				panic(p)
			}
			if os.Getenv("GOSYM_DEBUG") != "" {
				fmt.Fprintf(os.Stderr, "gosym: init of %s stopped: %v\n", pkg.Pkg.Path(), describePanic(p))
			}
			initFailures[pkg.Pkg.Path()] = describePanic(p)
		}
	}()
	var g *goroutine
	if cur := curG(); cur != nil {
		g = cur
	}
	callSSA(i, &frame{i: i, g: g}, token.NoPos, initFn, nil, nil)
}

var initFailures = map[string]string{}

// preemptMem makes every heap store a possible pre-emption point (within the pre-emption bound):
// used by the harnesses that look for unsynchronised shared state.
var preemptMem bool

func describePanic(p interface{}) string {
	switch p := p.(type) {
	case targetPanic:
		return "panic: " + toString(p.v)
	case unsupportedErr:
		return "unsupported: " + p.msg
	case abortRun:
		return "abort: " + p.kind + ": " + p.msg
	case error:
		return p.Error()
	}
	return fmt.Sprint(p)
}

func (fr *frame) runDefer(d *deferred) {
	var ok bool
	defer func() {
		if !ok {
			p := recover()
			if isControlPanic(p) {
				panic(p)
			}
			fr.panicking = true
			fr.panic = p
		}
	}()
	call(fr.i, fr, d.instr.Pos(), d.fn, d.args, nil)
	ok = true
}

func (fr *frame) runDefers() {
	for d := fr.defers; d != nil; d = d.tail {
		fr.runDefer(d)
	}
	fr.defers = nil
	if fr.panicking {
		panic(fr.panic)
	}
}

func lookupMethod(i *interpreter, typ types.Type, meth *types.Func) *ssa.Function {
	return i.prog.LookupMethod(typ, meth.Pkg(), meth.Name())
}

func visitInstr(fr *frame, instr ssa.Instruction) continuation {
	switch instr := instr.(type) {
	case *ssa.DebugRef:

	case *ssa.UnOp:
		fr.env[instr] = unop(fr, instr, fr.get(instr.X))

	case *ssa.BinOp:
		fr.env[instr] = binop(instr.Op, instr.X.Type(), fr.get(instr.X), fr.get(instr.Y), instr.Y.Type())

	case *ssa.Call:
		fn, args := prepareCall(fr, &instr.Call)
		fr.env[instr] = call(fr.i, fr, instr.Pos(), fn, args, &instr.Call)

	case *ssa.ChangeInterface:
		fr.env[instr] = fr.get(instr.X)

	case *ssa.ChangeType:
		fr.env[instr] = fr.get(instr.X)

	case *ssa.Convert:
		fr.env[instr] = conv(instr.Type(), instr.X.Type(), fr.get(instr.X))

	case *ssa.SliceToArrayPointer:
		s := fr.get(instr.X).([]value)
		n := int(instr.Type().Underlying().(*types.Pointer).Elem().Underlying().(*types.Array).Len())
		if len(s) < n {
			panic(runtimePanic("cannot convert slice to array pointer: length too short"))
		}
		if s == nil {
			fr.env[instr] = (*value)(nil)
		} else {
			var cell value = array(s[:n:n])
			fr.env[instr] = &cell
		}

	case *ssa.MakeInterface:
		fr.env[instr] = iface{t: instr.X.Type(), v: fr.get(instr.X)}

	case *ssa.Extract:
		fr.env[instr] = fr.get(instr.Tuple).(tuple)[instr.Index]

	case *ssa.Slice:
		fr.env[instr] = sliceOp(fr, instr, fr.get(instr.X), fr.get(instr.Low), fr.get(instr.High), fr.get(instr.Max))

	case *ssa.Return:
		switch len(instr.Results) {
		case 0:
		case 1:
			fr.result = fr.get(instr.Results[0])
		default:
			var res []value
			for _, r := range instr.Results {
				res = append(res, fr.get(r))
			}
			fr.result = tuple(res)
		}
		fr.block = nil
		return kReturn

	case *ssa.RunDefers:
		fr.runDefers()

	case *ssa.Panic:
		panic(targetPanic{fr.get(instr.X)})

	case *ssa.Send:
		chanSend(fr, fr.get(instr.Chan).(*channel), fr.get(instr.X))

	case *ssa.Store:
		storePtr(mustDeref(instr.Addr.Type()), fr.get(instr.Addr), fr.get(instr.Val))
		if preemptMem && instr.Addr != nil {
			if _, isAlloc := instr.Addr.(*ssa.Alloc); !isAlloc {
				maybePreempt(fr, "store")
			}
		}

	case *ssa.If:
		succ := 1
		if asBool(fr.get(instr.Cond), "if") {
			succ = 0
		}
		fr.prevBlock, fr.block = fr.block, fr.block.Succs[succ]
		return kJump

	case *ssa.Jump:
		fr.prevBlock, fr.block = fr.block, fr.block.Succs[0]
		return kJump

	case *ssa.Defer:
		fn, args := prepareCall(fr, &instr.Call)
		defers := &fr.defers
		if instr.DeferStack != nil {
			if into := fr.get(instr.DeferStack); into != nil {
				defers = into.(**deferred)
			}
		}
		*defers = &deferred{fn: fn, args: args, instr: instr, tail: *defers}

	case *ssa.Go:
		fn, args := prepareCall(fr, &instr.Call)
		spawn(fr, instr.Pos(), fn, args)

	case *ssa.MakeChan:
		fr.env[instr] = newChannel(int(asInt64(fr.get(instr.Size))), instr.Type().Underlying().(*types.Chan).Elem())

	case *ssa.Alloc:
		var addr *value
		if instr.Heap {
			addr = new(value)
			fr.env[instr] = addr
		} else {
			addr = fr.env[instr].(*value)
		}
		*addr = zero(mustDeref(instr.Type()))

	case *ssa.MakeSlice:
		c := int(asIntT(fr.get(instr.Cap), instr.Cap.Type()))
		l := int(asIntT(fr.get(instr.Len), instr.Len.Type()))
		if l < 0 || c < l || c > 1<<24 {
			panic(runtimePanic("makeslice: len out of range"))
		}
		slice := make([]value, c)
		tElt := instr.Type().Underlying().(*types.Slice).Elem()
		for i := range slice {
			slice[i] = zero(tElt)
		}
		fr.env[instr] = slice[:l]

	case *ssa.MakeMap:
		fr.env[instr] = newMap(instr.Type().Underlying().(*types.Map).Key())

	case *ssa.Range:
		fr.env[instr] = rangeIter(fr.get(instr.X), instr.X.Type())

	case *ssa.Next:
		fr.env[instr] = fr.get(instr.Iter).(iter).next()

	case *ssa.FieldAddr:
		switch x := fr.get(instr.X).(type) {
		case *value:
			if x == nil {
				panic(runtimePanic("invalid memory address or nil pointer dereference"))
			}
			fr.env[instr] = &(*x).(structure)[instr.Field]
		case *symptr:
			np := &symptr{base: x.base, idx: x.idx, path: append(append([]pathStep{}, x.path...), pathStep{instr.Field})}
			fr.env[instr] = np
		default:
			panic(fmt.Sprintf("FieldAddr on %T", x))
		}

	case *ssa.Field:
		fr.env[instr] = copyVal(fr.get(instr.X).(structure)[instr.Field])

	case *ssa.IndexAddr:
		x := fr.get(instr.X)
		if sp, ok := x.(*symptr); ok {
			// pointer to array reached through a symbolic pointer: only constant indices
			k := int(asIntT(fr.get(instr.Index), instr.Index.Type()))
			fr.env[instr] = &symptr{base: sp.base, idx: sp.idx, path: append(append([]pathStep{}, sp.path...), pathStep{k})}
			break
		}
		fr.env[instr] = indexAddr(x, fr.get(instr.Index), instr.Index.Type())

	case *ssa.Index:
		fr.env[instr] = indexValue(fr.get(instr.X), fr.get(instr.Index), instr.Index.Type(), instr.Type())

	case *ssa.Lookup:
		fr.env[instr] = lookup(instr, fr.get(instr.X), fr.get(instr.Index))

	case *ssa.MapUpdate:
		m := fr.get(instr.Map).(*hmap)
		if m == nil {
			panic(targetPanic{iface{tRuntimeError, "assignment to entry in nil map"}})
		}
		checkHashable(fr.get(instr.Key))
		m.insert(fr.get(instr.Key), copyVal(fr.get(instr.Value)))
		if preemptMem {
			maybePreempt(fr, "mapupdate")
		}

	case *ssa.TypeAssert:
		fr.env[instr] = typeAssert(fr.i, instr, fr.get(instr.X).(iface))

	case *ssa.MakeClosure:
		var bindings []value
		for _, binding := range instr.Bindings {
			bindings = append(bindings, fr.get(binding))
		}
		fr.env[instr] = &closure{instr.Fn.(*ssa.Function), bindings}

	case *ssa.Phi:
		panic("unreachable: phi")

	case *ssa.Select:
		fr.env[instr] = doSelect(fr, instr)

	default:
		panic(unsupported(fmt.Sprintf("instruction %T", instr)))
	}
	return kNext
}

// checkHashable: a map key of interface type whose dynamic type is not comparable (slice, map,
// func, or a struct/array containing one) panics in Go ("hash of unhashable type").
func checkHashable(k value) {
	if ifc, ok := k.(iface); ok && ifc.t != nil && ifc.t != tRuntimeError && !types.Comparable(ifc.t) {
		panic(targetPanic{iface{tRuntimeError, "runtime error: hash of unhashable type " + ifc.t.String()}})
	}
}

func lookup(instr *ssa.Lookup, x, idx value) value {
	if _, isMap := instr.X.Type().Underlying().(*types.Map); isMap {
		checkHashable(idx)
	}
	switch x := x.(type) {
	case *hmap:
		if x != nil && x.n > 64 && !x.hasSymKeys() {
			if _, concrete := keyString(idx); !concrete {
				// symbolic key into a large constant table (vendor prefixes): the result is an
				// uninterpreted function of the key; only equality of two look-ups is defined
				et := instr.X.Type().Underlying().(*types.Map).Elem()
				if isString(et) && !instr.CommaOk {
					modelsUsed["large-map lookup as uninterpreted function of the key"]++
					return &absstr{tag: fmt.Sprintf("maplookup@%p", x), args: flattenKey(idx)}
				}
				panic(unsupported("symbolic key into a large map"))
			}
		}
		v, ok := x.lookup(idx)
		if !ok {
			v = zero(instr.X.Type().Underlying().(*types.Map).Elem())
		} else {
			v = copyVal(v)
		}
		if instr.CommaOk {
			return tuple{v, ok}
		}
		return v
	case string, *symstr:
		return indexValue(x, idx, instr.Index.Type(), types.Typ[types.Uint8])
	}
	panic(fmt.Sprintf("unexpected x type in Lookup: %T", x))
}

func prepareCall(fr *frame, call *ssa.CallCommon) (fn value, args []value) {
	v := fr.get(call.Value)
	if call.Method == nil {
		fn = v
	} else {
		recv := v.(iface)
		if recv.t == nil {
			panic(runtimePanic("invalid memory address or nil pointer dereference (method call on nil interface)"))
		}
		if recv.t == tRuntimeError {
			// runtime.Error: Error() string
			msg := recv.v
			fn = &nativeFunc{name: "runtime.Error." + call.Method.Name(), fn: func(fr *frame, args []value) value { return msg }}
			return fn, nil
		}
		f := lookupMethod(fr.i, recv.t, call.Method)
		if f == nil {
			panic(fmt.Sprintf("method set for dynamic type %v does not contain %s", recv.t, call.Method))
		}
		fn = f
		args = append(args, recv.v)
	}
	for _, arg := range call.Args {
		args = append(args, fr.get(arg))
	}
	return
}

func call(i *interpreter, caller *frame, callpos token.Pos, fn value, args []value, cc *ssa.CallCommon) value {
	switch fn := fn.(type) {
	case *ssa.Function:
		if fn == nil {
			panic(runtimePanic("invalid memory address or nil pointer dereference (call of nil func)"))
		}
		return callSSA(i, caller, callpos, fn, args, nil)
	case *closure:
		return callSSA(i, caller, callpos, fn.Fn, args, fn.Env)
	case *ssa.Builtin:
		return callBuiltin(caller, callpos, fn, args, cc)
	case *nativeFunc:
		return fn.fn(caller, args)
	}
	panic(fmt.Sprintf("cannot call %T", fn))
}

const maxDepth = 400

func callSSA(i *interpreter, caller *frame, callpos token.Pos, fn *ssa.Function, args []value, env []value) value {
	fr := &frame{i: i, caller: caller, fn: fn}
	if caller != nil {
		fr.g = caller.g
		fr.depth = caller.depth + 1
		if fr.depth > maxDepth {
			panic(abortRun{"unwind", "call depth exceeds " + fmt.Sprint(maxDepth) + " in " + fn.String()})
		}
	}
	name := fn.String()
	if fn.Parent() == nil {
		if in := findIntrinsic(fn, name); in != nil {
			if i.trace {
				fmt.Fprintf(os.Stderr, "%sintrinsic %s\n", strings.Repeat(" ", fr.depth), name)
			}
			if r := in(fr, args); r != (notHandled{}) {
				return r
			}
			// the model declined (e.g. all-concrete arguments): interpret the real body
			if fn.Blocks == nil {
				panic(unsupported("no body for function " + name))
			}
		}
		if fn.Blocks == nil {
			if i.initing > 0 {
				// tolerate missing bodies while running package initialisers
				return zero(fn.Signature.Results())
			}
			panic(unsupported("no body for function " + name))
		}
	}
	if fn.Synthetic == "package initializer" && caller != nil && caller.fn != nil {
		// imports are initialised lazily, on first access to one of their globals
		return nil
	}
	if fn.TypeParams().Len() > 0 && len(fn.TypeArgs()) == 0 {
		panic(unsupported("uninstantiated generic " + name))
	}
	if i.trace {
		fmt.Fprintf(os.Stderr, "%s> %s\n", strings.Repeat(" ", fr.depth), name)
	}
	if i.initing == 0 {
		i.funcs[name] = true
	}
	fr.env = make(map[ssa.Value]value)
	fr.block = fn.Blocks[0]
	fr.locals = make([]value, len(fn.Locals))
	for k, l := range fn.Locals {
		fr.locals[k] = zero(mustDeref(l.Type()))
		fr.env[l] = &fr.locals[k]
	}
	for k, p := range fn.Params {
		fr.env[p] = args[k]
	}
	for k, fv := range fn.FreeVars {
		fr.env[fv] = env[k]
	}
	for fr.block != nil {
		runFrame(fr)
	}
	return fr.result
}

func runFrame(fr *frame) {
	defer func() {
		if fr.block == nil {
			return // normal return
		}
		p := recover()
		if p == nil {
			// runtime.Goexit or similar; should not happen
			return
		}
		if isControlPanic(p) {
			panic(p)
		}
		switch p.(type) {
		case targetPanic:
		case unsupportedErr:
			panic(abortRun{"unsupported", p.(unsupportedErr).msg + " (in " + fr.fn.String() + ")"})
		default:
			// host panic = engine bug; report with stack
			if _, isRT := p.(runtime.Error); isRT || true {
				msg := fmt.Sprintf("%v in %s\n%s", p, fr.fn, trimStack(debug.Stack()))
				panic(abortRun{"engine", msg})
			}
		}
		fr.panicking = true
		fr.panic = p
		fr.runDefers()
		fr.block = fr.fn.Recover
		if fr.block == nil {
			// recovered, function without named results: return zero values
			fr.result = zero(fr.fn.Signature.Results())
		}
	}()

	for {
		nonPhis := executePhis(fr)
		for _, instr := range nonPhis {
			fr.i.instrs++
			if fr.i.maxSteps > 0 && fr.i.instrs > fr.i.maxSteps {
				panic(abortRun{"unwind", fmt.Sprintf("instruction budget %d exceeded in %s", fr.i.maxSteps, fr.fn)})
			}
			if fr.i.trace {
				if v, ok := instr.(ssa.Value); ok {
					fmt.Fprintf(os.Stderr, "%s  %s = %s\n", strings.Repeat(" ", fr.depth), v.Name(), instr)
				} else {
					fmt.Fprintf(os.Stderr, "%s  %s\n", strings.Repeat(" ", fr.depth), instr)
				}
			}
			if visitInstr(fr, instr) == kReturn {
				return
			}
		}
	}
}

func trimStack(b []byte) string {
	lines := strings.Split(string(b), "\n")
	var out []string
	for _, l := range lines {
		if strings.Contains(l, "/verif/engine/") {
			out = append(out, strings.TrimSpace(l))
		}
		if len(out) > 14 {
			break
		}
	}
	return strings.Join(out, "\n")
}

func executePhis(fr *frame) []ssa.Instruction {
	firstNonPhi := -1
	for i, instr := range fr.block.Instrs {
		if _, ok := instr.(*ssa.Phi); !ok {
			firstNonPhi = i
			break
		}
	}
	nonPhis := fr.block.Instrs[firstNonPhi:]
	if firstNonPhi > 0 {
		phis := fr.block.Instrs[:firstNonPhi]
		predIndex := slices.Index(fr.block.Preds, fr.prevBlock)
		fr.phitemps = fr.phitemps[:0]
		for _, phi := range phis {
			phi := phi.(*ssa.Phi)
			fr.phitemps = append(fr.phitemps, fr.get(phi.Edges[predIndex]))
		}
		for i, phi := range phis {
			fr.env[phi.(*ssa.Phi)] = fr.phitemps[i]
		}
	}
	return nonPhis
}

func doRecover(caller *frame) value {
	if caller != nil && !caller.panicking &&
		caller.caller != nil && caller.caller.panicking {
		caller.caller.panicking = false
		p := caller.caller.panic
		caller.caller.panic = nil
		switch p := p.(type) {
		case targetPanic:
			return p.v
		default:
			panic(fmt.Sprintf("unexpected panic type %T in target call to recover()", p))
		}
	}
	return iface{}
}

func flattenKey(v value) []value {
	switch v := v.(type) {
	case array:
		var out []value
		for _, x := range v {
			out = append(out, flattenKey(x)...)
		}
		return out
	case structure:
		var out []value
		for _, x := range v {
			out = append(out, flattenKey(x)...)
		}
		return out
	}
	return []value{v}
}
