package main

// Goroutines, channels, select, logical time and sync primitives.
// Each interpreted goroutine runs on a host goroutine, but control is handed
// over explicitly (one runs at a time): the schedule is decided by the engine.

import (
	"fmt"
	"go/token"
	"go/types"
	"sort"

	"golang.org/x/tools/go/ssa"
)

type gStatus int

const (
	gRunnable gStatus = iota
	gRunning
	gBlocked
	gDead
)

type goroutine struct {
	id      int
	wake    chan bool
	status  gStatus
	waitMsg string
	pos     token.Pos
	fnName  string
}

type schedEvent struct {
	g    *goroutine
	kind string // "block", "yield", "exit", "abort", "panic"
	ab   abortRun
	pan  interface{}
}

type timer struct {
	when   int64
	seq    int
	fire   func()
	active bool
}

type scheduler struct {
	in      *interpreter
	gs      []*goroutine
	runq    []*goroutine
	cur     *goroutine
	now     int64
	timers  []*timer
	tseq    int
	events  chan schedEvent
	nextID  int
	sync    map[*value]interface{}
	chanSeq int
	steps   int
	leaked  int
	idleFires int
}

var theSched *scheduler

func curG() *goroutine {
	if theSched == nil {
		return nil
	}
	return theSched.cur
}

const timeBase = int64(1_700_000_000) * 1_000_000_000 // logical epoch (unix ns)

func newScheduler(in *interpreter) *scheduler {
	return &scheduler{in: in, events: make(chan schedEvent), sync: map[*value]interface{}{}, now: 0}
}

// startG creates a goroutine that will run body when first scheduled.
func (s *scheduler) startG(name string, pos token.Pos, body func(g *goroutine)) *goroutine {
	g := &goroutine{id: s.nextID, wake: make(chan bool), status: gRunnable, fnName: name, pos: pos}
	s.nextID++
	s.gs = append(s.gs, g)
	s.runq = append(s.runq, g)
	go func() {
		ev := schedEvent{g: g, kind: "exit"}
		defer func() {
			if p := recover(); p != nil {
				switch p := p.(type) {
				case killG:
					ev.kind = "exit"
				case abortRun:
					ev.kind = "abort"
					ev.ab = p
				case targetPanic:
					ev.kind = "panic"
					ev.pan = p
				case unsupportedErr:
					ev.kind = "abort"
					ev.ab = abortRun{"unsupported", p.msg}
				default:
					ev.kind = "abort"
					ev.ab = abortRun{"engine", fmt.Sprint(p)}
				}
			}
			g.status = gDead
			s.events <- ev
		}()
		if !<-g.wake {
			panic(killG{})
		}
		body(g)
	}()
	return g
}

// block parks the current goroutine until it is made runnable again.
func (s *scheduler) block(g *goroutine, why string) {
	g.status = gBlocked
	g.waitMsg = why
	s.events <- schedEvent{g: g, kind: "block"}
	if !<-g.wake {
		panic(killG{})
	}
}

// yield puts the current goroutine at the back of the run queue.
func (s *scheduler) yield(g *goroutine) {
	g.status = gRunnable
	s.runq = append(s.runq, g)
	s.events <- schedEvent{g: g, kind: "yield"}
	if !<-g.wake {
		panic(killG{})
	}
}

func (s *scheduler) ready(g *goroutine) {
	if g.status == gBlocked {
		g.status = gRunnable
		s.runq = append(s.runq, g)
	}
}

func (s *scheduler) addTimer(d int64, fire func()) *timer {
	if d < 0 {
		d = 0
	}
	t := &timer{when: s.now + d, seq: s.tseq, fire: fire, active: true}
	s.tseq++
	s.timers = append(s.timers, t)
	return t
}

func (s *scheduler) popTimer() *timer {
	live := s.timers[:0]
	for _, t := range s.timers {
		if t.active {
			live = append(live, t)
		}
	}
	s.timers = live
	if len(s.timers) == 0 {
		return nil
	}
	sort.SliceStable(s.timers, func(i, j int) bool {
		if s.timers[i].when != s.timers[j].when {
			return s.timers[i].when < s.timers[j].when
		}
		return s.timers[i].seq < s.timers[j].seq
	})
	t := s.timers[0]
	s.timers = s.timers[1:]
	return t
}

// run drives goroutines until the main goroutine (gs[0]) ends, the run is
// aborted, or everything is blocked.
func (s *scheduler) run() runResult {
	main := s.gs[0]
	var res runResult
	for {
		if main.status == gDead {
			res = runResult{kind: "ok"}
			break
		}
		if len(s.runq) == 0 {
			// advance logical time
			if t := s.popTimer(); t != nil {
				if t.when > s.now {
					s.now = t.when
				}
				t.active = false
				s.cur = nil
				t.fire()
				if len(s.runq) == 0 {
					s.idleFires++
					if s.idleFires > 2000 {
						// only self-re-arming timers (tickers) are left: nothing will ever wake the harness
						res = runResult{kind: "deadlock", msg: "only idle tickers left; harness goroutine blocked"}
						break
					}
				} else {
					s.idleFires = 0
				}
				continue
			}
			// deadlock: the main goroutine is blocked and nothing can run
			var waits []string
			for _, g := range s.gs {
				if g.status == gBlocked {
					waits = append(waits, fmt.Sprintf("g%d(%s): %s", g.id, g.fnName, g.waitMsg))
				}
			}
			res = runResult{kind: "deadlock", msg: fmt.Sprint(waits)}
			break
		}
		g := s.runq[0]
		s.runq = s.runq[1:]
		if g.status != gRunnable {
			continue
		}
		g.status = gRunning
		s.cur = g
		g.wake <- true
		ev := <-s.events
		s.cur = nil
		switch ev.kind {
		case "block", "yield":
		case "exit":
		case "abort":
			res = runResult{kind: ev.ab.kind, msg: ev.ab.msg}
		case "panic":
			res = runResult{kind: "panic", msg: fmt.Sprintf("goroutine %d (%s): %s", ev.g.id, ev.g.fnName, describePanic(ev.pan))}
		}
		if res.kind != "" {
			break
		}
	}
	// kill everything that is still alive
	for _, g := range s.gs {
		if g.status != gDead {
			if g != main {
				s.leaked++
			}
			g.wake <- false
			<-s.events
		}
	}
	return res
}

func spawn(fr *frame, pos token.Pos, fn value, args []value) {
	s := theSched
	name := "?"
	switch f := fn.(type) {
	case *ssa.Function:
		name = f.String()
	case *closure:
		name = f.Fn.String()
	}
	i := fr.i
	s.startG(name, pos, func(g *goroutine) {
		call(i, &frame{i: i, g: g}, pos, fn, args, nil)
	})
	maybePreempt(fr, "go")
}

// maybePreempt is called at visible operations; within the pre-emption bound
// the engine may switch to another runnable goroutine here.
func maybePreempt(fr *frame, why string) {
	s := theSched
	ex := curExec()
	if s == nil || fr == nil || fr.g == nil || ex.preempt <= 0 || len(s.runq) == 0 || fr.i.initing > 0 {
		return
	}
	n := 0
	for _, g := range s.runq {
		if g.status == gRunnable {
			n++
		}
	}
	if n == 0 {
		return
	}
	c := ex.choose(1+n, "preempt-"+why)
	if c == 0 {
		return
	}
	ex.preempt--
	// move the chosen goroutine to the front, current to the back
	k := 0
	for idx, g := range s.runq {
		if g.status == gRunnable {
			k++
			if k == c {
				s.runq = append([]*goroutine{g}, append(append([]*goroutine{}, s.runq[:idx]...), s.runq[idx+1:]...)...)
				break
			}
		}
	}
	s.yield(fr.g)
}

// ---- channels ----------------------------------------------------------------

type waiter struct {
	g       *goroutine
	sel     *selState
	caseIdx int
	val     value // value to send
	rval    value // value received
	rok     bool
	fired   bool
	closed  bool // woken by close (send side: panic)
}

type selState struct {
	fired  bool
	chosen int
	w      *waiter
}

type channel struct {
	id       int
	capacity int
	buf      []value
	closed   bool
	recvq    []*waiter
	sendq    []*waiter
	elemT    types.Type
}

func newChannel(capacity int, elemT types.Type) *channel {
	id := 0
	if theSched != nil {
		theSched.chanSeq++
		id = theSched.chanSeq
	}
	return &channel{id: id, capacity: capacity, elemT: elemT}
}

func (c *channel) length() int {
	if c == nil {
		return 0
	}
	return len(c.buf)
}

func (w *waiter) live() bool {
	if w.fired {
		return false
	}
	if w.sel != nil && w.sel.fired {
		return false
	}
	return true
}

func (w *waiter) fire() {
	w.fired = true
	if w.sel != nil {
		w.sel.fired = true
		w.sel.chosen = w.caseIdx
		w.sel.w = w
	}
	theSched.ready(w.g)
}

func popLive(q *[]*waiter) *waiter {
	for len(*q) > 0 {
		w := (*q)[0]
		*q = (*q)[1:]
		if w.live() {
			return w
		}
	}
	return nil
}

func hasLive(q []*waiter) bool {
	for _, w := range q {
		if w.live() {
			return true
		}
	}
	return false
}

func chanLog(c *channel) {
	// channels created before the run (package level) would need undo; all
	// channels in harness runs are created within the run, so nothing to do.
}

func requireG(fr *frame, what string) *goroutine {
	if fr == nil || fr.g == nil {
		panic(unsupported(what + " outside a scheduled goroutine"))
	}
	return fr.g
}

// trySend performs a send if it can proceed without blocking.
func trySend(c *channel, v value) bool {
	if c.closed {
		panic(targetPanic{iface{tRuntimeError, "send on closed channel"}})
	}
	if w := popLive(&c.recvq); w != nil {
		w.rval, w.rok = v, true
		w.fire()
		return true
	}
	if len(c.buf) < c.capacity {
		c.buf = append(c.buf, v)
		return true
	}
	return false
}

func canSend(c *channel) bool {
	if c == nil {
		return false
	}
	return c.closed || hasLive(c.recvq) || len(c.buf) < c.capacity
}

func canRecv(c *channel) bool {
	if c == nil {
		return false
	}
	return len(c.buf) > 0 || hasLive(c.sendq) || c.closed
}

func tryRecv(c *channel) (value, bool, bool) {
	if len(c.buf) > 0 {
		v := c.buf[0]
		c.buf = c.buf[1:]
		if w := popLive(&c.sendq); w != nil {
			c.buf = append(c.buf, w.val)
			w.fire()
		}
		return v, true, true
	}
	if w := popLive(&c.sendq); w != nil {
		v := w.val
		w.fire()
		return v, true, true
	}
	if c.closed {
		return zero(c.elemT), false, true
	}
	return nil, false, false
}

func chanSend(fr *frame, c *channel, v value) {
	v = copyVal(v)
	maybePreempt(fr, "send")
	if c == nil {
		g := requireG(fr, "send on nil channel")
		theSched.block(g, "send on nil channel")
		panic(abortRun{"engine", "woken from nil-channel send"})
	}
	if trySend(c, v) {
		return
	}
	g := requireG(fr, "blocking channel send")
	w := &waiter{g: g, val: v}
	c.sendq = append(c.sendq, w)
	theSched.block(g, fmt.Sprintf("chan send (ch%d)", c.id))
	if w.closed {
		panic(targetPanic{iface{tRuntimeError, "send on closed channel"}})
	}
}

func chanRecv(fr *frame, c *channel, elemT types.Type) (value, bool) {
	maybePreempt(fr, "recv")
	if c == nil {
		g := requireG(fr, "receive from nil channel")
		theSched.block(g, "receive from nil channel")
		panic(abortRun{"engine", "woken from nil-channel receive"})
	}
	if v, ok, done := tryRecv(c); done {
		return v, ok
	}
	g := requireG(fr, "blocking channel receive")
	w := &waiter{g: g}
	c.recvq = append(c.recvq, w)
	theSched.block(g, fmt.Sprintf("chan receive (ch%d)", c.id))
	if !w.rok {
		return zero(c.elemT), false
	}
	return w.rval, true
}

func chanClose(fr *frame, c *channel) {
	if c == nil {
		panic(targetPanic{iface{tRuntimeError, "close of nil channel"}})
	}
	if c.closed {
		panic(targetPanic{iface{tRuntimeError, "close of closed channel"}})
	}
	c.closed = true
	for _, w := range c.recvq {
		if w.live() {
			w.rval, w.rok = zero(c.elemT), false
			w.fire()
		}
	}
	c.recvq = nil
	for _, w := range c.sendq {
		if w.live() {
			w.closed = true
			w.fire()
		}
	}
	c.sendq = nil
	if fr != nil && fr.g != nil {
		maybePreempt(fr, "close")
	}
}

func doSelect(fr *frame, instr *ssa.Select) value {
	maybePreempt(fr, "select")
	type selCase struct {
		c    *channel
		send bool
		val  value
	}
	cases := make([]selCase, len(instr.States))
	var ready []int
	for i, st := range instr.States {
		c := fr.get(st.Chan).(*channel)
		sc := selCase{c: c, send: st.Dir == types.SendOnly}
		if sc.send {
			sc.val = copyVal(fr.get(st.Send))
			if canSend(c) {
				ready = append(ready, i)
			}
		} else if canRecv(c) {
			ready = append(ready, i)
		}
		cases[i] = sc
	}
	chosen := -1
	var rval value
	rok := false
	if len(ready) > 0 {
		k := 0
		if len(ready) > 1 {
			k = curExec().choose(len(ready), "select")
		}
		chosen = ready[k]
		sc := cases[chosen]
		if sc.send {
			if !trySend(sc.c, sc.val) {
				panic(abortRun{"engine", "select: ready send could not proceed"})
			}
		} else {
			v, ok, done := tryRecv(sc.c)
			if !done {
				panic(abortRun{"engine", "select: ready receive could not proceed"})
			}
			rval, rok = v, ok
		}
	} else if instr.Blocking {
		g := requireG(fr, "blocking select")
		st := &selState{chosen: -1}
		n := 0
		for i, sc := range cases {
			if sc.c == nil {
				continue
			}
			w := &waiter{g: g, sel: st, caseIdx: i, val: sc.val}
			if sc.send {
				sc.c.sendq = append(sc.c.sendq, w)
			} else {
				sc.c.recvq = append(sc.c.recvq, w)
			}
			n++
		}
		theSched.block(g, fmt.Sprintf("select (%d cases)", n))
		chosen = st.chosen
		if st.w.closed {
			panic(targetPanic{iface{tRuntimeError, "send on closed channel"}})
		}
		if !cases[chosen].send {
			rval, rok = st.w.rval, st.w.rok
		}
	}
	r := tuple{cint(int64(chosen)), rok}
	for i, st := range instr.States {
		if st.Dir == types.RecvOnly {
			var v value
			if i == chosen && rok {
				v = rval
			} else {
				v = zero(st.Chan.Type().Underlying().(*types.Chan).Elem())
			}
			r = append(r, v)
		}
	}
	return r
}

// ---- sync primitives (engine-native models) --------------------------------------

type mutexState struct {
	locked  bool
	readers int
	waiters []*goroutine
}

func (s *scheduler) mutex(p *value) *mutexState {
	if m, ok := s.sync[p].(*mutexState); ok {
		return m
	}
	m := &mutexState{}
	s.sync[p] = m
	return m
}

func (s *scheduler) wakeAll(ws *[]*goroutine) {
	for _, g := range *ws {
		s.ready(g)
	}
	*ws = nil
}

func mutexLock(fr *frame, p *value) {
	s := theSched
	if s == nil {
		return
	}
	maybePreempt(fr, "lock")
	m := s.mutex(p)
	for m.locked || m.readers > 0 {
		g := requireG(fr, "blocking mutex lock")
		m.waiters = append(m.waiters, g)
		s.block(g, "mutex lock")
	}
	m.locked = true
}

func mutexUnlock(fr *frame, p *value) {
	s := theSched
	if s == nil {
		return
	}
	m := s.mutex(p)
	if !m.locked {
		panic(targetPanic{iface{tRuntimeError, "fatal error: sync: unlock of unlocked mutex"}})
	}
	m.locked = false
	s.wakeAll(&m.waiters)
}

func mutexRLock(fr *frame, p *value) {
	s := theSched
	if s == nil {
		return
	}
	maybePreempt(fr, "rlock")
	m := s.mutex(p)
	for m.locked {
		g := requireG(fr, "blocking rlock")
		m.waiters = append(m.waiters, g)
		s.block(g, "rwmutex rlock")
	}
	m.readers++
}

func mutexRUnlock(fr *frame, p *value) {
	s := theSched
	if s == nil {
		return
	}
	m := s.mutex(p)
	if m.readers <= 0 {
		panic(targetPanic{iface{tRuntimeError, "fatal error: sync: RUnlock of unlocked RWMutex"}})
	}
	m.readers--
	if m.readers == 0 {
		s.wakeAll(&m.waiters)
	}
}

type wgState struct {
	n       int64
	waiters []*goroutine
}

func (s *scheduler) wg(p *value) *wgState {
	if m, ok := s.sync[p].(*wgState); ok {
		return m
	}
	m := &wgState{}
	s.sync[p] = m
	return m
}

func wgAdd(fr *frame, p *value, d int64) {
	s := theSched
	w := s.wg(p)
	w.n += d
	if w.n < 0 {
		panic(targetPanic{iface{tRuntimeError, "sync: negative WaitGroup counter"}})
	}
	if w.n == 0 {
		s.wakeAll(&w.waiters)
	}
}

func wgWait(fr *frame, p *value) {
	s := theSched
	maybePreempt(fr, "wg-wait")
	w := s.wg(p)
	for w.n > 0 {
		g := requireG(fr, "WaitGroup.Wait")
		w.waiters = append(w.waiters, g)
		s.block(g, "WaitGroup.Wait")
	}
}

type poolState struct {
	free []value
}

func (s *scheduler) pool(p *value) *poolState {
	if m, ok := s.sync[p].(*poolState); ok {
		return m
	}
	m := &poolState{}
	s.sync[p] = m
	return m
}
