package main

// Path exploration: depth-first search over a decision trail, by re-execution.
// The solver's assertion stack is kept aligned with the trail.

import (
	"fmt"
	"os"
	"sort"
	"strings"
	"time"
)

type decKind int

const (
	dBranch decKind = iota // cond true (0) / false (1)
	dConc                  // term == cand (0) / term != cand (1)
	dSched                 // choice among n alternatives
)

type decision struct {
	kind    decKind
	cond    *Term // dBranch: condition; dConc: the term being concretised
	cand    uint64
	choice  int
	n       int  // dSched: number of alternatives
	pending bool // an unexplored alternative remains
	why     string
}

type violation struct {
	Kind     string            `json:"kind"` // "assert", "panic", "deadlock", ...
	Msg      string            `json:"msg"`
	Known    string            `json:"known,omitempty"`
	Tape     map[string]uint64 `json:"tape"`
	Sched    []int             `json:"sched,omitempty"`
	Path     int               `json:"path"`
	Where    string            `json:"where,omitempty"`
	Replayed string            `json:"replayed,omitempty"`
}

type execStats struct {
	Paths        int
	Completed    int
	Infeasible   int
	AssumeFalse  int
	Decisions    map[string]int
	Asserts      int
	AssertsSym   int
	Instructions int64
	MaxTrail     int
}

type exec struct {
	in       *interpreter
	solver   *Solver
	trail    []decision
	pos      int
	sdepth   int // number of trail entries currently asserted in the solver
	vars     []*Term
	varSeen  map[string]bool
	stats    execStats
	viol     []violation
	incon    []string // inconclusive reasons
	covers   map[string]int
	known    string // known-finding region active on the current path
	labelCnt map[string]int
	concrete map[string]uint64 // concrete mode: tape
	observed []string
	maxPaths int
	deadline time.Time
	witness  bool
	schedLog []int
	assertSites map[string]int
	pathNotes []string
	pathViolated bool
	pending      []pendingAssert
	preempt  int // remaining pre-emptions on this path
	preemptBound int
	samples  []map[string]uint64
}

var theExec *exec

func curExec() *exec { return theExec }

func (ex *exec) pathCond() string {
	var sb strings.Builder
	for i := 0; i < ex.pos && i < len(ex.trail); i++ {
		d := ex.trail[i]
		fmt.Fprintf(&sb, "%s:%d ", d.why, d.choice)
	}
	return sb.String()
}

func (ex *exec) count(why string) {
	if ex.stats.Decisions == nil {
		ex.stats.Decisions = map[string]int{}
	}
	ex.stats.Decisions[why]++
}

// assertDecision pushes the constraint of trail[i] to the solver.
func (ex *exec) constraintOf(d *decision) *Term {
	switch d.kind {
	case dBranch:
		if d.choice == 0 {
			return d.cond
		}
		return mkBNot(d.cond)
	case dConc:
		eq := mkEq(d.cond, mkConst(d.cand, d.cond.w))
		if d.choice == 0 {
			return eq
		}
		return mkBNot(eq)
	}
	return tTrue
}

func (ex *exec) syncSolverTo(n int) {
	// ensure trail[0:n] asserted
	for ex.sdepth < n {
		d := &ex.trail[ex.sdepth]
		ex.solver.Push()
		ex.solver.Assert(ex.constraintOf(d))
		ex.sdepth++
	}
}

func (ex *exec) checkSat() SatResult {
	t0 := time.Now()
	r := ex.solver.Check()
	if d := time.Since(t0); d > 500*time.Millisecond && os.Getenv("GOSYM_SLOW") != "" {
		fmt.Fprintf(os.Stderr, "slow query %.1fs -> %v; last assert: %s\n", d.Seconds(), r, ex.solver.lastAssert)
	}
	if r == Unknown {
		ex.inconclusive("solver-unknown: " + lastSolverError)
	}
	return r
}

func (ex *exec) inconclusive(reason string) {
	for _, r := range ex.incon {
		if r == reason {
			return
		}
	}
	if len(ex.incon) < 50 {
		ex.incon = append(ex.incon, reason)
	}
}

// decide resolves a symbolic condition, forking when both sides are feasible.
func (ex *exec) decide(c *Term, why string) bool {
	if c == tTrue {
		return true
	}
	if c == tFalse {
		return false
	}
	if ex.concrete != nil {
		return evalTerm(c, ex.concrete, map[*Term]uint64{}) == 1
	}
	if ex.pos < len(ex.trail) {
		d := &ex.trail[ex.pos]
		if d.kind != dBranch || d.cond != c {
			panic(abortRun{"engine", fmt.Sprintf("replay divergence at decision %d: have %v/%s want branch %s on %v", ex.pos, d.kind, d.why, why, c)})
		}
		ex.pos++
		ex.syncSolverTo(ex.pos)
		return d.choice == 0
	}
	ex.syncSolverTo(ex.pos)
	ex.count(why)
	// try the true side
	ex.solver.Push()
	ex.solver.Assert(c)
	r := ex.checkSat()
	if r == Sat {
		ex.trail = append(ex.trail, decision{kind: dBranch, cond: c, choice: 0, pending: true, why: why})
		ex.pos++
		ex.sdepth++
		return true
	}
	ex.solver.Pop(1)
	if r == Unknown {
		// cannot establish feasibility of the true side: explore the false side only and flag it
		ex.inconclusive("branch feasibility unknown at " + why)
	}
	ex.solver.Push()
	ex.solver.Assert(mkBNot(c))
	if r == Unknown {
		if r2 := ex.checkSat(); r2 != Sat {
			ex.solver.Pop(1)
			panic(abortRun{"infeasible", "both sides unknown/infeasible at " + why})
		}
	}
	ex.trail = append(ex.trail, decision{kind: dBranch, cond: c, choice: 1, pending: false, why: why})
	ex.pos++
	ex.sdepth++
	return false
}

// concretize enumerates the feasible values of t, one per path.
func (ex *exec) concretize(t *Term, why string) uint64 {
	if t.isConst() {
		return t.val
	}
	if ex.concrete != nil {
		return evalTerm(t, ex.concrete, map[*Term]uint64{})
	}
	for {
		if ex.pos < len(ex.trail) {
			d := &ex.trail[ex.pos]
			if d.kind != dConc || d.cond != t {
				panic(abortRun{"engine", fmt.Sprintf("replay divergence at decision %d (concretize %s)", ex.pos, why)})
			}
			ex.pos++
			ex.syncSolverTo(ex.pos)
			if d.choice == 0 {
				return d.cand
			}
			continue
		}
		ex.syncSolverTo(ex.pos)
		ex.count("conc:" + why)
		if r := ex.checkSat(); r != Sat {
			panic(abortRun{"infeasible", "concretize: path infeasible/unknown at " + why})
		}
		vals, err := ex.solver.Values([]*Term{t})
		if err != nil {
			ex.inconclusive("get-value failed: " + err.Error())
			panic(abortRun{"infeasible", "get-value failed"})
		}
		ex.trail = append(ex.trail, decision{kind: dConc, cond: t, cand: vals[0], choice: 0, pending: true, why: why})
		ex.solver.Push()
		ex.solver.Assert(mkEq(t, mkConst(vals[0], t.w)))
		ex.pos++
		ex.sdepth++
		return vals[0]
	}
}

// choose picks one of n scheduling alternatives.
func (ex *exec) choose(n int, why string) int {
	if n <= 1 {
		return 0
	}
	if ex.concrete != nil {
		k := fmt.Sprintf("sched#%d", len(ex.schedLog))
		c := int(ex.concrete[k])
		if c >= n {
			c = 0
		}
		ex.schedLog = append(ex.schedLog, c)
		return c
	}
	if ex.pos < len(ex.trail) {
		d := &ex.trail[ex.pos]
		if d.kind != dSched || d.n != n {
			panic(abortRun{"engine", fmt.Sprintf("replay divergence at decision %d (sched %s: n=%d vs %d)", ex.pos, why, n, d.n)})
		}
		ex.pos++
		ex.syncSolverTo(ex.pos)
		ex.schedLog = append(ex.schedLog, d.choice)
		return d.choice
	}
	ex.syncSolverTo(ex.pos)
	ex.count("sched:" + why)
	ex.trail = append(ex.trail, decision{kind: dSched, n: n, choice: 0, pending: n > 1, why: why})
	ex.solver.Push() // keep solver depth aligned with the trail
	ex.pos++
	ex.sdepth++
	ex.schedLog = append(ex.schedLog, 0)
	return 0
}

// backtrack prepares the trail for the next path; false when exploration is complete.
func (ex *exec) backtrack() bool {
	for len(ex.trail) > 0 {
		i := len(ex.trail) - 1
		d := &ex.trail[i]
		if !d.pending {
			ex.trail = ex.trail[:i]
			continue
		}
		// pop solver to depth i
		if ex.sdepth > i {
			ex.solver.Pop(ex.sdepth - i)
			ex.sdepth = i
		}
		switch d.kind {
		case dSched:
			d.choice++
			d.pending = d.choice+1 < d.n
			ex.solver.Push()
			ex.sdepth++
			return true
		case dBranch, dConc:
			d.choice = 1
			d.pending = false
			ex.solver.Push()
			ex.solver.Assert(ex.constraintOf(d))
			ex.sdepth++
			r := ex.checkSat()
			if r == Sat {
				return true
			}
			if r == Unknown {
				ex.inconclusive("alternative feasibility unknown at " + d.why)
			}
			// infeasible alternative: drop it and continue backtracking
			ex.solver.Pop(1)
			ex.sdepth--
			ex.trail = ex.trail[:i]
		}
	}
	return false
}

// ---- harness primitives ------------------------------------------------------

func (ex *exec) fresh(label string, w int) value {
	if n := ex.labelCnt[label]; n > 0 {
		ex.labelCnt[label] = n + 1
		label = fmt.Sprintf("%s#%d", label, n)
	} else {
		ex.labelCnt[label] = 1
	}
	if ex.concrete != nil {
		v := ex.concrete[label]
		if w == 0 {
			return v&1 == 1
		}
		return cint(v & mask(w))
	}
	var t *Term
	if w == 0 {
		t = mkBoolVar(label)
	} else {
		t = mkVar(label, w)
	}
	if !ex.varSeen[label] {
		ex.varSeen[label] = true
		ex.vars = append(ex.vars, t)
	}
	return t
}

func (ex *exec) assume(c value) {
	ex.flushAsserts()
	switch c := c.(type) {
	case bool:
		if !c {
			panic(abortRun{"assume", "assumption false"})
		}
	case *Term:
		if ex.concrete != nil {
			if evalTerm(c, ex.concrete, map[*Term]uint64{}) != 1 {
				panic(abortRun{"assume", "assumption false"})
			}
			return
		}
		if !ex.decide(c, "assume") {
			panic(abortRun{"assume", "assumption false"})
		}
	}
}

// model returns the current model of all nd variables (after a Sat check).
func (ex *exec) model() map[string]uint64 {
	m := map[string]uint64{}
	vals, err := ex.solver.Values(ex.vars)
	if err != nil {
		ex.inconclusive("get-value failed: " + err.Error())
		return m
	}
	for i, v := range ex.vars {
		m[v.name] = vals[i]
	}
	return m
}

func (ex *exec) recordViolation(kind, msg, where string, haveModel bool) {
	v := violation{Kind: kind, Msg: msg, Known: ex.known, Path: ex.stats.Paths, Where: where}
	if ex.concrete != nil {
		v.Tape = ex.concrete
	} else {
		if !haveModel {
			ex.syncSolverTo(ex.pos)
			if r := ex.checkSat(); r != Sat {
				ex.inconclusive("violation path not confirmed sat: " + msg)
				return
			}
		}
		v.Tape = ex.model()
	}
	ex.pathViolated = true
	v.Sched = append([]int{}, ex.schedLog...)
	// de-duplicate by (kind,msg,known)
	for _, o := range ex.viol {
		if o.Kind == v.Kind && o.Msg == v.Msg && o.Known == v.Known && o.Where == v.Where {
			return
		}
	}
	ex.viol = append(ex.viol, v)
}

func (ex *exec) assert(c value, msg string, where string) {
	ex.stats.Asserts++
	site := where + ": " + msg
	ex.assertSites[site]++
	if ex.witness {
		// witness twin: the assertion site must be reachable
		ex.recordViolation("witness", msg, where, false)
		return
	}
	switch c := c.(type) {
	case bool:
		if !c {
			ex.recordViolation("assert", msg, where, false)
			panic(abortRun{"done", "assertion failed (concrete)"})
		}
	case *Term:
		if ex.concrete != nil {
			if evalTerm(c, ex.concrete, map[*Term]uint64{}) != 1 {
				ex.recordViolation("assert", msg, where, false)
				panic(abortRun{"done", "assertion failed"})
			}
			return
		}
		ex.stats.AssertsSym++
		ex.pending = append(ex.pending, pendingAssert{c, msg, where})
	}
}

type pendingAssert struct {
	c          *Term
	msg, where string
}

// flushAsserts discharges the assertions collected since the last flush: one query for
// their conjunction, individual queries only if that one is satisfiable.
func (ex *exec) flushAsserts() {
	if len(ex.pending) == 0 || ex.concrete != nil {
		ex.pending = ex.pending[:0]
		return
	}
	pend := ex.pending
	ex.pending = nil
	if ex.pos < len(ex.trail) {
		// replaying a recorded prefix: an earlier path flushed the same assertions at this very
		// point; consume the assumptions it recorded for failed ones
		for ex.pos < len(ex.trail) && ex.trail[ex.pos].why == "assert-assume" {
			ex.pos++
			ex.syncSolverTo(ex.pos)
		}
		return
	}
	ex.syncSolverTo(ex.pos)
	all := tTrue
	for _, a := range pend {
		all = mkBAnd(all, a.c)
	}
	if all == tTrue {
		return
	}
	ex.solver.Push()
	ex.solver.Assert(mkBNot(all))
	r := ex.checkSat()
	ex.solver.Pop(1)
	if r == Unsat {
		return
	}
	for _, a := range pend {
		ex.solver.Push()
		ex.solver.Assert(mkBNot(a.c))
		r := ex.checkSat()
		if r == Sat {
			ex.recordViolation("assert", a.msg, a.where, true)
		}
		ex.solver.Pop(1)
		if r != Unsat {
			// continue under the assumption that the assertion holds
			if !ex.decideAssume(a.c) {
				panic(abortRun{"done", "assertion can never hold here"})
			}
		}
	}
}

// decideAssume adds c to the path condition without forking (used after a failed assertion).
func (ex *exec) decideAssume(c *Term) bool {
	ex.syncSolverTo(ex.pos)
	ex.solver.Push()
	ex.solver.Assert(c)
	if ex.checkSat() != Sat {
		ex.solver.Pop(1)
		return false
	}
	ex.trail = append(ex.trail, decision{kind: dBranch, cond: c, choice: 0, pending: false, why: "assert-assume"})
	ex.pos++
	ex.sdepth++
	return true
}

func (ex *exec) cover(label string) {
	ex.covers[label]++
}

// ---- driver ------------------------------------------------------------------

type runResult struct {
	kind string
	msg  string
}

// explore runs the harness over all feasible paths.
func (ex *exec) explore(run func() runResult) {
	for {
		if ex.maxPaths > 0 && ex.stats.Paths >= ex.maxPaths {
			ex.inconclusive(fmt.Sprintf("path budget %d exhausted", ex.maxPaths))
			return
		}
		if !ex.deadline.IsZero() && time.Now().After(ex.deadline) {
			ex.inconclusive("time budget exhausted")
			return
		}
		ex.pos = 0
		ex.known = ""
		ex.labelCnt = map[string]int{}
		ex.schedLog = ex.schedLog[:0]
		ex.pathNotes = ex.pathNotes[:0]
		ex.preempt = ex.preemptBound
		ex.pathViolated = false
		ex.stats.Paths++
		res := run()
		if res.kind == "ok" || res.kind == "done" || res.kind == "panic" || res.kind == "deadlock" {
			func() {
				defer func() {
					if p := recover(); p != nil {
						if _, ok := p.(abortRun); !ok {
							panic(p)
						}
					}
				}()
				ex.flushAsserts()
			}()
		}
		ex.pending = nil
		rollback()
		if len(ex.trail) > ex.stats.MaxTrail {
			ex.stats.MaxTrail = len(ex.trail)
		}
		switch res.kind {
		case "ok", "done":
			ex.stats.Completed++
			if len(ex.samples) < 3 && ex.concrete == nil && len(ex.vars) > 0 && !ex.pathViolated {
				ex.syncSolverTo(ex.pos)
				if ex.solver.Check() == Sat {
					ex.samples = append(ex.samples, ex.model())
				}
			}
		case "assume":
			ex.stats.AssumeFalse++
		case "infeasible":
			ex.stats.Infeasible++
		case "unsupported", "unwind", "engine":
			ex.inconclusive(res.kind + ": " + res.msg)
		case "panic", "deadlock":
			// recorded as violations by the scheduler
			ex.stats.Completed++
		}
		if os.Getenv("GOSYM_DEBUG") != "" {
			fmt.Fprintf(os.Stderr, "path %d: %s %s  [%s]\n", ex.stats.Paths, res.kind, firstLine(res.msg), ex.pathCond())
		}
		if ex.concrete != nil {
			return
		}
		// drop trail entries beyond what this run consumed (possible after early abort)
		if ex.pos < len(ex.trail) {
			ex.trail = ex.trail[:ex.pos]
			if ex.sdepth > ex.pos {
				ex.solver.Pop(ex.sdepth - ex.pos)
				ex.sdepth = ex.pos
			}
		}
		if !ex.backtrack() {
			return
		}
	}
}

func firstLine(s string) string {
	if i := strings.IndexByte(s, '\n'); i >= 0 {
		return s[:i]
	}
	return s
}

func sortedCount(m map[string]int) []string {
	var ks []string
	for k := range m {
		ks = append(ks, k)
	}
	sort.Strings(ks)
	return ks
}
