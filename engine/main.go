package main

import (
	"encoding/json"
	"flag"
	"fmt"
	"os"
	"runtime"
	"runtime/debug"
	"runtime/pprof"
	"sort"
	"strings"
	"time"
)

type OblResult struct {
	ID           string              `json:"id"`
	Pkg          string              `json:"pkg"`
	Harness      string              `json:"harness"`
	Verdict      string              `json:"verdict"` // holds | violation | inconclusive | error
	Params       map[string]int      `json:"params,omitempty"`
	Paths        int                 `json:"paths"`
	Completed    int                 `json:"paths_completed"`
	AssumeFalse  int                 `json:"paths_assume_false"`
	Infeasible   int                 `json:"paths_infeasible"`
	Decisions    map[string]int      `json:"decisions"`
	Asserts      int                 `json:"assertions_evaluated"`
	AssertsSym   int                 `json:"assertion_queries"`
	AssertSites  map[string]int      `json:"assert_sites"`
	Instructions int64               `json:"ssa_instructions"`
	MaxTrail     int                 `json:"max_decision_depth"`
	Solver       string              `json:"solver"`
	SolverStats  SolverStats         `json:"solver_stats"`
	Covers       map[string]int      `json:"covers"`
	MissingCover []string            `json:"missing_covers,omitempty"`
	Violations   []violation         `json:"violations,omitempty"`
	Inconclusive []string            `json:"inconclusive,omitempty"`
	Funcs        []string            `json:"functions_encoded"`
	FuncsOther   int                 `json:"functions_encoded_outside_repo"`
	Models       []string            `json:"models_used"`
	Seams        []string            `json:"seams"`
	InitFailures map[string]string   `json:"init_failures,omitempty"`
	Leaked       int                 `json:"goroutines_leaked_max"`
	Samples      []map[string]uint64 `json:"sample_models,omitempty"`
	Observed     []string            `json:"observed,omitempty"`
	WallS        float64             `json:"wall_s"`
	LoadS        float64             `json:"load_s"`
	Error        string              `json:"error,omitempty"`
}

type runOpts struct {
	solver   string
	timeout  int // per query ms
	maxPaths int
	budget   time.Duration
	witness  bool
	tape     map[string]uint64
	params   map[string]int
	preempt  int
	trace    bool
	maxSteps int64
	covers   []string
	solverLog string
}

var curParams map[string]int

func runHarness(spec *HarnessSpec, verifDir string, o runOpts) *OblResult {
	start := time.Now()
	ld, err := loadProgram(spec, verifDir)
	if err != nil {
		return &OblResult{Pkg: spec.Pkg, Harness: spec.Harness, Solver: o.solver, Params: o.params, Verdict: "error", Error: err.Error()}
	}
	res := runLoaded(ld, spec, o)
	res.LoadS = time.Since(start).Seconds() - res.WallS
	return res
}

// runLoaded explores one harness on an already loaded program.
func runLoaded(ld *loaded, spec *HarnessSpec, o runOpts) *OblResult {
	start := time.Now()
	res := &OblResult{Pkg: spec.Pkg, Harness: spec.Harness, Solver: o.solver, Params: o.params}
	modelsUsed = map[string]int{}
	initFailures = map[string]string{}
	res.Seams = ld.ov.seamsApplied
	fn := ld.pkg.Func(spec.Harness)
	if fn == nil {
		res.Verdict = "error"
		res.Error = "harness function not found: " + spec.Harness
		return res
	}
	in := &interpreter{prog: ld.prog, globals: map[*ssaGlobal]*value{}, inited: map[*ssaPackage]bool{}, funcs: map[string]bool{}, trace: o.trace, maxSteps: o.maxSteps}
	ex := &exec{in: in, varSeen: map[string]bool{}, covers: map[string]int{}, assertSites: map[string]int{},
		maxPaths: o.maxPaths, witness: o.witness, preemptBound: o.preempt, concrete: o.tape}
	if o.budget > 0 {
		ex.deadline = time.Now().Add(o.budget)
	}
	theExec = ex
	curParams = o.params
	preemptMem = o.params["PREEMPT_MEM"] == 1
	realIPString = o.params["REAL_IPSTRING"] == 1
	monoTime = o.params["MONO_TIME"] == 1
	if o.tape == nil {
		s, err := NewSolver(o.solver, o.timeout)
		if err != nil {
			res.Verdict = "error"
			res.Error = err.Error()
			return res
		}
		if o.solverLog != "" {
			f, _ := os.Create(o.solverLog)
			s.log = f
		}
		ex.solver = s
		defer s.Close()
	}
	maxLeaked := 0
	run := func() runResult {
		undoEnabled = true
		in.instrs = 0
		s := newScheduler(in)
		theSched = s
		timerHandles = map[*value]*timerHandle{}
		s.startG("harness", 0, func(g *goroutine) {
			call(in, &frame{i: in, g: g}, 0, fn, nil, nil)
		})
		r := s.run()
		ex.stats.Instructions += in.instrs
		if s.leaked > maxLeaked {
			maxLeaked = s.leaked
		}
		switch r.kind {
		case "panic":
			ex.recordViolation("panic", r.msg, "", false)
		case "deadlock":
			ex.recordViolation("deadlock", r.msg, "", false)
		}
		undoEnabled = false
		return r
	}
	ex.explore(run)

	res.Paths = ex.stats.Paths
	res.Completed = ex.stats.Completed
	res.AssumeFalse = ex.stats.AssumeFalse
	res.Infeasible = ex.stats.Infeasible
	res.Decisions = ex.stats.Decisions
	res.Asserts = ex.stats.Asserts
	res.AssertsSym = ex.stats.AssertsSym
	res.AssertSites = ex.assertSites
	res.Instructions = ex.stats.Instructions
	res.MaxTrail = ex.stats.MaxTrail
	if ex.solver != nil {
		res.SolverStats = ex.solver.stats
	}
	res.Covers = ex.covers
	res.Violations = ex.viol
	res.Inconclusive = ex.incon
	res.Leaked = maxLeaked
	res.Samples = ex.samples
	res.Observed = ex.observed
	if len(initFailures) > 0 {
		res.InitFailures = initFailures
	}
	for f := range in.funcs {
		if strings.Contains(f, "v-byte-cpu/sx") {
			res.Funcs = append(res.Funcs, f)
		} else {
			res.FuncsOther++
		}
	}
	sort.Strings(res.Funcs)
	for m := range modelsUsed {
		res.Models = append(res.Models, m)
	}
	sort.Strings(res.Models)
	for _, c := range o.covers {
		if ex.covers[c] == 0 {
			res.MissingCover = append(res.MissingCover, c)
		}
	}
	switch {
	case len(ex.viol) > 0:
		res.Verdict = "violation"
	case len(ex.incon) > 0:
		res.Verdict = "inconclusive"
	default:
		res.Verdict = "holds"
	}
	res.WallS = time.Since(start).Seconds()
	return res
}

func parseParams(s string) map[string]int {
	m := map[string]int{}
	for _, kv := range strings.Split(s, ",") {
		if kv == "" {
			continue
		}
		p := strings.SplitN(kv, "=", 2)
		if len(p) == 2 {
			var v int
			fmt.Sscanf(p[1], "%d", &v)
			m[p[0]] = v
		}
	}
	return m
}

func cmdRun(args []string) int {
	fs := flag.NewFlagSet("run", flag.ExitOnError)
	pkg := fs.String("pkg", "", "package dir relative to /repo")
	harness := fs.String("harness", "", "harness function")
	files := fs.String("files", "", "comma-separated harness files")
	seams := fs.String("seams", "", "JSON file with seams (or inline JSON)")
	solver := fs.String("solver", "z3", "z3 | z3-new | cvc5 | cvc5-int")
	timeout := fs.Int("timeout", 60000, "per-query timeout ms")
	maxPaths := fs.Int("max-paths", 0, "path budget (0 = unlimited)")
	budget := fs.Duration("budget", 0, "wall-time budget")
	witness := fs.Bool("witness", false, "witness twin: report reachable assertion sites")
	tape := fs.String("tape", "", "concrete mode: JSON tape")
	params := fs.String("params", "", "k=v,...")
	preempt := fs.Int("preempt", 0, "pre-emption bound")
	trace := fs.Bool("trace", false, "trace instructions")
	maxSteps := fs.Int64("max-steps", 50_000_000, "instruction budget per path")
	covers := fs.String("covers", "", "expected cover labels")
	out := fs.String("o", "", "output file (default stdout)")
	verifDir := fs.String("verif", "/verif", "verif dir")
	repo := fs.String("repo", "/repo", "repo dir")
	slog := fs.String("solver-log", "", "write solver input to file")
	cpuprof := fs.String("cpuprofile", "", "write cpu profile")
	fs.Parse(args)
	if *cpuprof != "" {
		f, _ := os.Create(*cpuprof)
		pprof.StartCPUProfile(f)
		defer pprof.StopCPUProfile()
	}
	repoDir = *repo
	spec := &HarnessSpec{Pkg: *pkg, Harness: *harness}
	if *files != "" {
		spec.Files = strings.Split(*files, ",")
	}
	if *seams != "" {
		b := []byte(*seams)
		if !strings.HasPrefix(strings.TrimSpace(*seams), "[") {
			var err error
			if b, err = os.ReadFile(*seams); err != nil {
				fmt.Fprintln(os.Stderr, err)
				return 2
			}
		}
		if err := json.Unmarshal(b, &spec.Seams); err != nil {
			fmt.Fprintln(os.Stderr, "seams:", err)
			return 2
		}
	}
	o := runOpts{solver: *solver, timeout: *timeout, maxPaths: *maxPaths, budget: *budget, witness: *witness,
		params: parseParams(*params), preempt: *preempt, trace: *trace, maxSteps: *maxSteps, solverLog: *slog}
	if *covers != "" {
		o.covers = strings.Split(*covers, ",")
	}
	if *tape != "" {
		b, err := os.ReadFile(*tape)
		if err != nil {
			fmt.Fprintln(os.Stderr, err)
			return 2
		}
		o.tape = map[string]uint64{}
		if err := json.Unmarshal(b, &o.tape); err != nil {
			fmt.Fprintln(os.Stderr, err)
			return 2
		}
	}
	res := runHarness(spec, *verifDir, o)
	b, _ := json.MarshalIndent(res, "", " ")
	if *out != "" {
		os.WriteFile(*out, b, 0o644)
	} else {
		fmt.Println(string(b))
	}
	if res.Verdict == "error" {
		return 2
	}
	return 0
}

func main() {
	// many small heaps + 16 cores make the Go runtime thrash in this VM
	if os.Getenv("GOMAXPROCS") == "" {
		runtime.GOMAXPROCS(3)
	}
	if os.Getenv("GOGC") == "" {
		debug.SetGCPercent(400)
	}
	if len(os.Args) < 2 {
		fmt.Fprintln(os.Stderr, "usage: gosym run|check|selftest ...")
		os.Exit(2)
	}
	switch os.Args[1] {
	case "run":
		os.Exit(cmdRun(os.Args[2:]))
	case "check":
		os.Exit(cmdCheck(os.Args[2:]))
	case "runmany":
		os.Exit(cmdRunMany(os.Args[2:]))
	default:
		fmt.Fprintln(os.Stderr, "unknown command", os.Args[1])
		os.Exit(2)
	}
}

// manyJob is one run of a worker process (see cmdCheck).
type manyJob struct {
	Index    int            `json:"index"`
	Harness  string         `json:"harness"`
	Params   map[string]int `json:"params"`
	Solver   string         `json:"solver"`
	Timeout  int            `json:"timeout_ms"`
	MaxPaths int            `json:"max_paths"`
	MaxSteps int64          `json:"max_steps"`
	Budget   string         `json:"budget"`
	Preempt  int            `json:"preempt"`
	Witness  bool           `json:"witness"`
	Covers   []string       `json:"covers"`
}

type manyFile struct {
	Pkg    string    `json:"pkg"`
	Files  []string  `json:"files"`
	Seams  []Seam    `json:"seams"`
	Jobs   []manyJob `json:"jobs"`
	OutDir string    `json:"out_dir"`
}

// cmdRunMany loads the program once and runs a list of harness jobs on it.
func cmdRunMany(args []string) int {
	fs := flag.NewFlagSet("runmany", flag.ExitOnError)
	jf := fs.String("jobs", "", "jobs file")
	verifDir := fs.String("verif", "/verif", "verif dir")
	repo := fs.String("repo", "/repo", "repo dir")
	fs.Parse(args)
	repoDir = *repo
	b, err := os.ReadFile(*jf)
	if err != nil {
		fmt.Fprintln(os.Stderr, err)
		return 2
	}
	var mf manyFile
	if err := json.Unmarshal(b, &mf); err != nil {
		fmt.Fprintln(os.Stderr, err)
		return 2
	}
	spec := &HarnessSpec{Pkg: mf.Pkg, Files: mf.Files, Seams: mf.Seams}
	t0 := time.Now()
	ld, lerr := loadProgram(spec, *verifDir)
	loadS := time.Since(t0).Seconds()
	for _, j := range mf.Jobs {
		var res *OblResult
		if lerr != nil {
			res = &OblResult{Pkg: mf.Pkg, Harness: j.Harness, Params: j.Params, Verdict: "error", Error: lerr.Error()}
		} else {
			bd, _ := time.ParseDuration(j.Budget)
			o := runOpts{solver: j.Solver, timeout: j.Timeout, maxPaths: j.MaxPaths, budget: bd, witness: j.Witness,
				params: j.Params, preempt: j.Preempt, maxSteps: j.MaxSteps, covers: j.Covers}
			if o.solver == "" {
				o.solver = "z3"
			}
			if o.timeout == 0 {
				o.timeout = 60000
			}
			if o.maxSteps == 0 {
				o.maxSteps = 50_000_000
			}
			s2 := *spec
			s2.Harness = j.Harness
			res = runLoaded(ld, &s2, o)
			res.LoadS = loadS
		}
		rb, _ := json.Marshal(res)
		os.WriteFile(fmt.Sprintf("%s/run%d.json", mf.OutDir, j.Index), rb, 0o644)
	}
	return 0
}
