package main

// The kernel pre-filter is produced exactly as the product does it: the text comes from
// /repo's interpreted filter function, libpcap (native, same module version as /repo)
// compiles it to classic BPF; the program is then executed over the symbolic frame by a
// small cBPF interpreter in the harness.

import (
	"go/types"

	"github.com/google/gopacket/layers"
	"github.com/google/gopacket/pcap"
)

func init() {
	intrinsics["github.com/google/gopacket/pcap.CompileBPFFilter"] = func(fr *frame, a []value) value {
		lt := layers.LinkType(asInt64(a[0]))
		snap := int(asInt64(a[1]))
		expr := argStr(a[2])
		prog, err := pcap.CompileBPFFilter(lt, snap, expr)
		if err != nil {
			T := namedType(fr.i.prog, "errors", "errorString")
			var cell value = structure{err.Error()}
			return tuple{[]value(nil), iface{t: types.NewPointer(T), v: &cell}}
		}
		out := make([]value, len(prog))
		for i, ins := range prog {
			out[i] = structure{cint(ins.Code), cint(ins.Jt), cint(ins.Jf), cint(ins.K)}
		}
		modelsUsed["pcap.CompileBPFFilter (native libpcap)"]++
		return tuple{out, iface{}}
	}
}
