package main

import (
	"fmt"
	"go/constant"
	"go/token"
	"go/types"
	"math"
	"unicode/utf8"

	"golang.org/x/tools/go/ssa"
)

// targetPanic is a panic of the interpreted program.
type targetPanic struct {
	v value
}

func (p targetPanic) String() string { return toString(p.v) }

func runtimePanic(msg string) targetPanic {
	return targetPanic{iface{tRuntimeError, "runtime error: " + msg}}
}

// tRuntimeError is a stand-in named type for runtime.Error values.
var tRuntimeError types.Type = types.NewNamed(types.NewTypeName(token.NoPos, nil, "runtime.Error", nil), types.Typ[types.String], nil)

type unsupportedErr struct{ msg string }

func unsupported(msg string) unsupportedErr { return unsupportedErr{msg} }

func constValue(c *ssa.Const) value {
	if c.Value == nil {
		return zero(c.Type())
	}
	T := c.Type()
	if tp, ok := T.(*types.TypeParam); ok {
		T = tp.Underlying()
	}
	if t, ok := T.Underlying().(*types.Basic); ok {
		switch {
		case t.Info()&types.IsBoolean != 0:
			return constant.BoolVal(c.Value)
		case t.Info()&types.IsInteger != 0:
			w, signed, _ := intInfo(t)
			if signed {
				return norm(uint64(c.Int64()), w, true)
			}
			return norm(c.Uint64(), w, false)
		case t.Info()&types.IsFloat != 0:
			return c.Float64()
		case t.Info()&types.IsString != 0:
			if c.Value.Kind() == constant.String {
				return constant.StringVal(c.Value)
			}
			return string(rune(c.Int64()))
		case t.Info()&types.IsComplex != 0:
			return c.Complex128()
		}
	}
	panic(fmt.Sprintf("constValue: %s", c))
}

func asInt64(v value) int64 {
	switch v := v.(type) {
	case cint:
		return int64(v)
	case *Term:
		return int64(curExec().concretize(v, "int"))
	}
	panic(fmt.Sprintf("asInt64: %T", v))
}

// asInt64T concretises with the right signedness
func asIntT(v value, T types.Type) int64 {
	switch v := v.(type) {
	case cint:
		return int64(v)
	case *Term:
		_, signed, _ := intInfo(T)
		u := curExec().concretize(v, "int")
		return int64(norm(u, v.w, signed))
	}
	panic(fmt.Sprintf("asIntT: %T", v))
}

func asBool(v value, why string) bool {
	switch v := v.(type) {
	case bool:
		return v
	case *Term:
		return curExec().decide(v, why)
	}
	panic(fmt.Sprintf("asBool: %T", v))
}

// ---- binary operators ------------------------------------------------------

func binop(op token.Token, T types.Type, x, y value, yT types.Type) value {
	switch op {
	case token.EQL:
		return fromTerm(eqValues(T, x, y), false)
	case token.NEQ:
		return fromTerm(mkBNot(eqValues(T, x, y)), false)
	}
	if w, signed, ok := intInfo(T); ok {
		return intBinop(op, w, signed, x, y, yT)
	}
	if isFloat(T) {
		a, b := x.(float64), y.(float64)
		f32 := T.Underlying().(*types.Basic).Kind() == types.Float32
		r := func(f float64) value {
			if f32 {
				return float64(float32(f))
			}
			return f
		}
		switch op {
		case token.ADD:
			return r(a + b)
		case token.SUB:
			return r(a - b)
		case token.MUL:
			return r(a * b)
		case token.QUO:
			return r(a / b)
		case token.LSS:
			return a < b
		case token.LEQ:
			return a <= b
		case token.GTR:
			return a > b
		case token.GEQ:
			return a >= b
		}
	}
	if isString(T) {
		switch op {
		case token.ADD:
			return strConcat(x, y)
		case token.LSS, token.LEQ, token.GTR, token.GEQ:
			c := strCompare(x, y)
			switch op {
			case token.LSS:
				return c < 0
			case token.LEQ:
				return c <= 0
			case token.GTR:
				return c > 0
			default:
				return c >= 0
			}
		}
	}
	panic(unsupported(fmt.Sprintf("binop %v on %v (%T, %T)", op, T, x, y)))
}

func strCompare(x, y value) int {
	xs, ok1 := x.(string)
	ys, ok2 := y.(string)
	if ok1 && ok2 {
		switch {
		case xs < ys:
			return -1
		case xs > ys:
			return 1
		}
		return 0
	}
	// symbolic: lexicographic with forking
	xb, yb := strBytes(x), strBytes(y)
	ex := curExec()
	for i := 0; i < len(xb) && i < len(yb); i++ {
		e := eqTerm(nil, xb[i], yb[i])
		if e == tTrue || (e != tFalse && ex.decide(e, "strcmp-eq")) {
			continue
		}
		lt := mkCmp(OpUlt, toTerm(xb[i], 8), toTerm(yb[i], 8))
		if lt == tTrue || (lt != tFalse && ex.decide(lt, "strcmp-lt")) {
			return -1
		}
		return 1
	}
	switch {
	case len(xb) < len(yb):
		return -1
	case len(xb) > len(yb):
		return 1
	}
	return 0
}

func eqValues(T types.Type, x, y value) *Term {
	// nil comparisons of slices, maps, funcs
	switch xv := x.(type) {
	case []value:
		yv, _ := y.([]value)
		if yv == nil {
			return mkBool(xv == nil)
		}
		if xv == nil {
			return mkBool(yv == nil)
		}
		panic(unsupported("comparison of two non-nil slices"))
	case *hmap:
		yv, _ := y.(*hmap)
		return mkBool(xv == yv)
	case *ssa.Function:
		switch yv := y.(type) {
		case *ssa.Function:
			return mkBool(xv == yv)
		default:
			return mkBool(false)
		}
	case *closure, *nativeFunc:
		if yf, ok := y.(*ssa.Function); ok && yf == nil {
			return tFalse
		}
	}
	return eqTerm(T, x, y)
}

func intBinop(op token.Token, w int, signed bool, x, y value, yT types.Type) value {
	xc, xok := x.(cint)
	yc, yok := y.(cint)
	isShift := op == token.SHL || op == token.SHR
	if xok && yok {
		a, b := uint64(xc)&mask(w), uint64(yc)&mask(w)
		if isShift {
			b = uint64(yc)
			if _, ys, _ := intInfo(yT); ys && int64(yc) < 0 {
				panic(runtimePanic("negative shift amount"))
			}
		}
		switch op {
		case token.ADD:
			return norm(a+b, w, signed)
		case token.SUB:
			return norm(a-b, w, signed)
		case token.MUL:
			return norm(a*b, w, signed)
		case token.QUO:
			if b == 0 {
				panic(runtimePanic("integer divide by zero"))
			}
			if signed {
				return norm(evalBin(OpSDiv, a, b, w), w, true)
			}
			return norm(a/b, w, false)
		case token.REM:
			if b == 0 {
				panic(runtimePanic("integer divide by zero"))
			}
			if signed {
				return norm(evalBin(OpSRem, a, b, w), w, true)
			}
			return norm(a%b, w, false)
		case token.AND:
			return norm(a&b, w, signed)
		case token.OR:
			return norm(a|b, w, signed)
		case token.XOR:
			return norm(a^b, w, signed)
		case token.AND_NOT:
			return norm(a&^b, w, signed)
		case token.SHL:
			if b >= uint64(w) {
				return cint(0)
			}
			return norm(a<<b, w, signed)
		case token.SHR:
			if signed {
				return norm(evalBin(OpAShr, a, b, w), w, true)
			}
			if b >= uint64(w) {
				return cint(0)
			}
			return norm(a>>b, w, false)
		case token.LSS:
			if signed {
				return int64(xc) < int64(yc)
			}
			return a < b
		case token.LEQ:
			if signed {
				return int64(xc) <= int64(yc)
			}
			return a <= b
		case token.GTR:
			if signed {
				return int64(xc) > int64(yc)
			}
			return a > b
		case token.GEQ:
			if signed {
				return int64(xc) >= int64(yc)
			}
			return a >= b
		}
		panic(fmt.Sprintf("intBinop: %v", op))
	}
	xt := toTerm(x, w)
	var yt *Term
	if isShift {
		yw, ysigned, _ := intInfo(yT)
		yt0 := toTerm(y, yw)
		ex := curExec()
		if ysigned {
			neg := mkCmp(OpSlt, yt0, mkConst(0, yw))
			if neg != tFalse && ex.decide(neg, "negative-shift") {
				panic(runtimePanic("negative shift amount"))
			}
		}
		if yw > w {
			// saturate: any amount >= w behaves like w
			big := mkCmp(OpUle, mkConst(uint64(w), yw), yt0)
			yt = mkIte(big, mkConst(uint64(w), w), mkExtract(yt0, w-1, 0))
		} else {
			yt = mkZext(yt0, w)
		}
	} else {
		yt = toTerm(y, w)
	}
	ex := curExec()
	switch op {
	case token.ADD:
		return fromTerm(mkBin(OpAdd, xt, yt), signed)
	case token.SUB:
		return fromTerm(mkBin(OpSub, xt, yt), signed)
	case token.MUL:
		return fromTerm(mkBin(OpMul, xt, yt), signed)
	case token.QUO, token.REM:
		z := mkEq(yt, mkConst(0, w))
		if z != tFalse && (z == tTrue || ex.decide(z, "div-by-zero")) {
			panic(runtimePanic("integer divide by zero"))
		}
		var o Op
		switch {
		case op == token.QUO && signed:
			o = OpSDiv
		case op == token.QUO:
			o = OpUDiv
		case signed:
			o = OpSRem
		default:
			o = OpURem
		}
		return fromTerm(mkBin(o, xt, yt), signed)
	case token.AND:
		return fromTerm(mkBin(OpAnd, xt, yt), signed)
	case token.OR:
		return fromTerm(mkBin(OpOr, xt, yt), signed)
	case token.XOR:
		return fromTerm(mkBin(OpXor, xt, yt), signed)
	case token.AND_NOT:
		return fromTerm(mkBin(OpAnd, xt, mkNot(yt)), signed)
	case token.SHL:
		return fromTerm(mkBin(OpShl, xt, yt), signed)
	case token.SHR:
		if signed {
			return fromTerm(mkBin(OpAShr, xt, yt), signed)
		}
		return fromTerm(mkBin(OpLShr, xt, yt), signed)
	case token.LSS:
		if signed {
			return fromTerm(mkCmp(OpSlt, xt, yt), false)
		}
		return fromTerm(mkCmp(OpUlt, xt, yt), false)
	case token.LEQ:
		if signed {
			return fromTerm(mkCmp(OpSle, xt, yt), false)
		}
		return fromTerm(mkCmp(OpUle, xt, yt), false)
	case token.GTR:
		if signed {
			return fromTerm(mkCmp(OpSlt, yt, xt), false)
		}
		return fromTerm(mkCmp(OpUlt, yt, xt), false)
	case token.GEQ:
		if signed {
			return fromTerm(mkCmp(OpSle, yt, xt), false)
		}
		return fromTerm(mkCmp(OpUle, yt, xt), false)
	}
	panic(fmt.Sprintf("intBinop: %v", op))
}

// ---- unary operators -------------------------------------------------------

func unop(fr *frame, instr *ssa.UnOp, x value) value {
	switch instr.Op {
	case token.ARROW: // receive
		v, ok := chanRecv(fr, x.(*channel), instr.X.Type().Underlying().(*types.Chan).Elem())
		if instr.CommaOk {
			return tuple{v, ok}
		}
		return v
	case token.SUB:
		T := instr.X.Type()
		if w, signed, ok := intInfo(T); ok {
			switch x := x.(type) {
			case cint:
				return norm(-uint64(x), w, signed)
			case *Term:
				return fromTerm(mkNeg(x), signed)
			}
		}
		if f, ok := x.(float64); ok {
			return -f
		}
	case token.MUL: // load
		return loadPtr(mustDeref(instr.X.Type()), x)
	case token.NOT:
		switch x := x.(type) {
		case bool:
			return !x
		case *Term:
			return fromTerm(mkBNot(x), false)
		}
	case token.XOR:
		T := instr.X.Type()
		if w, signed, ok := intInfo(T); ok {
			switch x := x.(type) {
			case cint:
				return norm(^uint64(x), w, signed)
			case *Term:
				return fromTerm(mkNot(x), signed)
			}
		}
	}
	panic(unsupported(fmt.Sprintf("unop %v on %T", instr.Op, x)))
}

func loadPtr(T types.Type, p value) value {
	switch p := p.(type) {
	case *value:
		if p == nil {
			panic(runtimePanic("invalid memory address or nil pointer dereference"))
		}
		return load(T, p)
	case *symptr:
		return loadSym(T, p)
	}
	panic(fmt.Sprintf("loadPtr: %T", p))
}

func storePtr(T types.Type, p value, v value) {
	switch p := p.(type) {
	case *value:
		if p == nil {
			panic(runtimePanic("invalid memory address or nil pointer dereference"))
		}
		store(T, p, v)
		return
	case *symptr:
		storeSym(T, p, v)
		return
	}
	panic(fmt.Sprintf("storePtr: %T", p))
}

func navigate(v *value, path []pathStep) *value {
	for _, st := range path {
		switch x := (*v).(type) {
		case structure:
			v = &x[st.field]
		case array:
			v = &x[st.field]
		default:
			panic(fmt.Sprintf("navigate: %T", x))
		}
	}
	return v
}

// loadSym reads through a pointer with symbolic index: ite over candidates
// (grouped by value), or concretisation when leaves are not scalars.
type symLoadGroup struct {
	v    value
	idxs []int
}

type symLoadCache struct {
	snap   []value // raw leaves at the time of grouping
	groups []*symLoadGroup
	scalar bool
}

var symLoadCaches = map[string]*symLoadCache{}

func cheapEq(a, b value) bool {
	switch x := a.(type) {
	case cint:
		y, ok := b.(cint)
		return ok && x == y
	case bool:
		y, ok := b.(bool)
		return ok && x == y
	case string:
		y, ok := b.(string)
		return ok && x == y
	case *Term:
		y, ok := b.(*Term)
		return ok && x == y
	case *value:
		y, ok := b.(*value)
		return ok && x == y
	case *ssa.Function:
		y, ok := b.(*ssa.Function)
		return ok && x == y
	}
	return false
}

// loadSym reads through a pointer with symbolic index: ite over candidates
// (grouped by value), or concretisation when leaves are not scalars.
func loadSym(T types.Type, p *symptr) value {
	n := len(p.base)
	var groups []*symLoadGroup
	scalar := true
	var cache *symLoadCache
	ckey := ""
	if n >= 256 {
		ckey = fmt.Sprintf("%p/%d/%v", &p.base[0], n, p.path)
		if c := symLoadCaches[ckey]; c != nil {
			ok := true
			for i := 0; i < n; i++ {
				if !cheapEq(*navigate(&p.base[i], p.path), c.snap[i]) {
					ok = false
					break
				}
			}
			if ok {
				cache = c
				groups, scalar = c.groups, c.scalar
			}
		}
	}
	if cache == nil {
		byKey := map[string]*symLoadGroup{}
		var snap []value
		if ckey != "" {
			snap = make([]value, n)
		}
		for i := 0; i < n; i++ {
			cell := navigate(&p.base[i], p.path)
			if snap != nil {
				snap[i] = *cell
			}
			leaf := load(T, cell)
			var key string
			if t, ok := leaf.(*Term); ok {
				key = fmt.Sprintf("t%d", t.id)
			} else if ks, ok := keyString(leaf); ok {
				key = ks
				switch leaf.(type) {
				case cint, bool:
				default:
					scalar = false
				}
			} else {
				scalar = false
				key = fmt.Sprintf("u%d", i)
			}
			g := byKey[key]
			if g == nil {
				g = &symLoadGroup{v: leaf}
				byKey[key] = g
				groups = append(groups, g)
			}
			g.idxs = append(g.idxs, i)
		}
		if ckey != "" {
			symLoadCaches[ckey] = &symLoadCache{snap: snap, groups: groups, scalar: scalar}
		}
	}
	if len(groups) == 1 {
		return groups[0].v
	}
	if !scalar || len(groups) > 4096 {
		i := int(curExec().concretize(p.idx, "symptr-load"))
		return load(T, navigate(&p.base[i], p.path))
	}
	// default = largest group
	def := groups[0]
	for _, g := range groups {
		if len(g.idxs) > len(def.idxs) {
			def = g
		}
	}
	w, signed, isInt := intInfo(T)
	conv := func(v value) *Term {
		if isInt {
			return toTerm(v, w)
		}
		return toBoolTerm(v)
	}
	res := conv(def.v)
	for _, g := range groups {
		if g == def {
			continue
		}
		c := tFalse
		for _, i := range g.idxs {
			c = mkBOr(c, mkEq(p.idx, mkConst(uint64(i), 64)))
		}
		res = mkIte(c, conv(g.v), res)
	}
	return fromTerm(res, signed)
}

func storeSym(T types.Type, p *symptr, v value) {
	w, signed, isInt := intInfo(T)
	if (!isInt && !isBool(T)) || len(p.base) > 4096 {
		i := int(curExec().concretize(p.idx, "symptr-store"))
		store(T, navigate(&p.base[i], p.path), v)
		return
	}
	for i := range p.base {
		cell := navigate(&p.base[i], p.path)
		c := mkEq(p.idx, mkConst(uint64(i), 64))
		if isInt {
			setCell(cell, fromTerm(mkIte(c, toTerm(v, w), toTerm(*cell, w)), signed))
		} else {
			setCell(cell, fromTerm(mkIte(c, toBoolTerm(v), toBoolTerm(*cell)), false))
		}
	}
}

// ---- conversions -------------------------------------------------------------

func conv(tDst, tSrc types.Type, x value) value {
	ut_src := tSrc.Underlying()
	ut_dst := tDst.Underlying()

	// pointers and unsafe.Pointer: representation is shared
	switch ut_dst.(type) {
	case *types.Pointer:
		return x
	}
	if b, ok := ut_dst.(*types.Basic); ok && b.Kind() == types.UnsafePointer {
		if _, isInt := x.(cint); isInt {
			return (*value)(nil)
		}
		return x
	}
	if b, ok := ut_src.(*types.Basic); ok && b.Kind() == types.UnsafePointer {
		if _, _, isInt := intInfo(tDst); isInt { // uintptr(unsafe.Pointer(p))
			if p, ok := x.(*value); ok {
				return cint(ptrToInt(p))
			}
		}
		return x
	}

	switch ut_dst := ut_dst.(type) {
	case *types.Slice:
		// string -> []byte / []rune
		if isStringVal(x) {
			if ut_dst.Elem().Underlying().(*types.Basic).Kind() == types.Uint8 {
				return stringToBytes(x)
			}
			var out []value
			n := strLen(x)
			for i := 0; i < n; {
				r, sz := decodeRune(x, i)
				out = append(out, r)
				i += sz
			}
			if out == nil {
				out = []value{}
			}
			return out
		}
		return x
	case *types.Basic:
		if isString(ut_dst) {
			switch xs := x.(type) {
			case string, *symstr, *absstr:
				return x
			case []value:
				// []byte or []rune
				if et, ok := ut_src.(*types.Slice); ok && et.Elem().Underlying().(*types.Basic).Kind() == types.Uint8 {
					return bytesToString(xs)
				}
				var buf []byte
				for _, r := range xs {
					buf = utf8.AppendRune(buf, rune(asInt64(r)))
				}
				return string(buf)
			case cint:
				return string(rune(int64(xs)))
			case *Term:
				return string(rune(asInt64(xs)))
			}
		}
		if dw, dsigned, ok := intInfo(ut_dst); ok {
			if sw, ssigned, ok := intInfo(ut_src); ok {
				switch x := x.(type) {
				case cint:
					return norm(uint64(x), dw, dsigned)
				case *Term:
					_ = sw
					return fromTerm(mkResize(x, dw, ssigned), dsigned)
				}
			}
			if f, ok := x.(float64); ok {
				if dsigned {
					return norm(uint64(int64(f)), dw, true)
				}
				return norm(uint64(f), dw, false)
			}
			if b, ok := x.(bool); ok { // not valid Go, but harmless
				if b {
					return cint(1)
				}
				return cint(0)
			}
		}
		if isFloat(ut_dst) {
			f32 := ut_dst.Kind() == types.Float32
			var f float64
			switch x := x.(type) {
			case float64:
				f = x
			case cint:
				if _, ssigned, _ := intInfo(ut_src); ssigned {
					f = float64(int64(x))
				} else {
					f = float64(uint64(x))
				}
			case *Term:
				// concretise (bounded forking) — floats are concrete-only
				_, ssigned, _ := intInfo(ut_src)
				u := curExec().concretize(x, "int-to-float")
				if ssigned {
					f = float64(int64(norm(u, x.w, true)))
				} else {
					f = float64(u)
				}
			default:
				panic(unsupported(fmt.Sprintf("conv %T to float", x)))
			}
			if f32 {
				return float64(float32(f))
			}
			return f
		}
		if isBool(ut_dst) {
			return x
		}
	default:
		return x
	}
	panic(unsupported(fmt.Sprintf("conv %v -> %v (%T)", tSrc, tDst, x)))
}

var ptrIDs = map[*value]uint64{}

func ptrToInt(p *value) uint64 {
	if p == nil {
		return 0
	}
	if id, ok := ptrIDs[p]; ok {
		return id
	}
	id := uint64(0x1000 + 16*len(ptrIDs))
	ptrIDs[p] = id
	return id
}

// ---- slicing -----------------------------------------------------------------

func sliceOp(fr *frame, instr *ssa.Slice, x, lo, hi, max value) value {
	var l, c int
	switch x := x.(type) {
	case string:
		l, c = len(x), len(x)
	case *symstr:
		l, c = len(x.b), len(x.b)
	case []value:
		l, c = len(x), cap(x)
	case *value: // *array
		if x == nil {
			panic(runtimePanic("nil pointer dereference (slice of nil array pointer)"))
		}
		a := (*x).(array)
		l, c = len(a), len(a)
	default:
		panic(fmt.Sprintf("slice: unexpected X type: %T", x))
	}
	ex := curExec()
	// Bounds are concretised; each feasible value forks (bounded by the backing size).
	bound := func(v value, def int, T ssa.Value) int {
		if v == nil {
			return def
		}
		switch v := v.(type) {
		case cint:
			return int(int64(v))
		case *Term:
			// fork first on "out of range" so that the panic path is one path
			_, signed, _ := intInfo(T.Type())
			var oor *Term
			if signed {
				oor = mkBOr(mkCmp(OpSlt, v, mkConst(0, v.w)), mkCmp(OpSlt, mkConst(uint64(c), v.w), v))
			} else {
				oor = mkCmp(OpUlt, mkConst(uint64(c), v.w), v)
			}
			if oor != tFalse && (oor == tTrue || ex.decide(oor, "slice-bound-oor")) {
				return -1
			}
			return int(ex.concretize(v, "slice-bound"))
		}
		panic("slice bound")
	}
	// string[lo:hi] with symbolic lo and a constant length hi-lo: no forking, the
	// bytes are table look-ups (strconv's small-number table, hex tables, ...)
	if lt, ok := lo.(*Term); ok && max == nil {
		if ht, ok := hi.(*Term); ok && lt.w == ht.w {
			if d := mkBin(OpSub, ht, lt); d.isConst() && int64(d.val) >= 0 && int(d.val) <= l {
				switch x.(type) {
				case string, *symstr:
					k := int(d.val)
					_, signed, _ := intInfo(instr.Low.Type())
					l64 := mkResize(lt, 64, signed)
					inb := mkCmp(OpUle, l64, mkConst(uint64(l-k), 64))
					if inb == tFalse || (inb != tTrue && !ex.decide(inb, "strslice-in-bounds")) {
						panic(runtimePanic(fmt.Sprintf("slice bounds out of range [sym:sym+%d] with length %d", k, l)))
					}
					sb := strBytes(x)
					out := make([]value, k)
					for j := 0; j < k; j++ {
						out[j] = loadSym(types.Typ[types.Uint8], &symptr{base: sb[j : l-k+j+1], idx: l64})
					}
					return mkStr(out)
				}
			}
		}
	}
	iLo := bound(lo, 0, instr.Low)
	iHi := bound(hi, l, instr.High)
	iMax := bound(max, c, instr.Max)
	_, isStr := x.(string)
	_, isSymStr := x.(*symstr)
	limit := c
	if isStr || isSymStr {
		limit = l
	}
	if iLo < 0 || iHi < 0 || iMax < 0 || iHi > limit || iLo > iHi || iMax > c || iHi > iMax {
		panic(runtimePanic(fmt.Sprintf("slice bounds out of range [%d:%d:%d] with capacity %d", iLo, iHi, iMax, c)))
	}
	switch x := x.(type) {
	case string:
		return x[iLo:iHi]
	case *symstr:
		return mkStr(x.b[iLo:iHi])
	case []value:
		if x == nil {
			return x
		}
		return x[iLo:iHi:iMax]
	case *value:
		a := (*x).(array)
		return []value(a)[iLo:iHi:iMax]
	}
	panic("unreachable")
}

// indexAddr computes &x[idx] with bounds check; symbolic idx gives a *symptr.
func indexAddr(x value, idx value, idxT types.Type) value {
	var base []value
	switch x := x.(type) {
	case []value:
		base = x
	case *value:
		if x == nil {
			panic(runtimePanic("invalid memory address or nil pointer dereference"))
		}
		base = []value((*x).(array))
	default:
		panic(fmt.Sprintf("unexpected x type in IndexAddr: %T", x))
	}
	switch i := idx.(type) {
	case cint:
		k := int64(i)
		if k < 0 || k >= int64(len(base)) {
			panic(runtimePanic(fmt.Sprintf("index out of range [%d] with length %d", k, len(base))))
		}
		return &base[k]
	case *Term:
		i64 := idxTerm64(i, idxT)
		inb := mkCmp(OpUlt, i64, mkConst(uint64(len(base)), 64))
		if inb == tFalse || (inb != tTrue && !curExec().decide(inb, "index-in-bounds")) {
			panic(runtimePanic(fmt.Sprintf("index out of range [sym] with length %d", len(base))))
		}
		if len(base) == 1 {
			return &base[0]
		}
		return &symptr{base: base, idx: i64}
	}
	panic("indexAddr")
}

func idxTerm64(i *Term, T types.Type) *Term {
	_, signed, _ := intInfo(T)
	return mkResize(i, 64, signed)
}

// indexValue computes x[idx] for array or string values.
func indexValue(x value, idx value, idxT types.Type, elemT types.Type) value {
	var n int
	var get func(i int) value
	switch x := x.(type) {
	case array:
		n = len(x)
		get = func(i int) value { return copyVal(x[i]) }
	case string:
		n = len(x)
		get = func(i int) value { return cint(x[i]) }
	case *symstr:
		n = len(x.b)
		get = func(i int) value { return x.b[i] }
	default:
		panic(fmt.Sprintf("unexpected x type in Index: %T", x))
	}
	switch i := idx.(type) {
	case cint:
		k := int64(i)
		if k < 0 || k >= int64(n) {
			panic(runtimePanic(fmt.Sprintf("index out of range [%d] with length %d", k, n)))
		}
		return get(int(k))
	case *Term:
		i64 := idxTerm64(i, idxT)
		inb := mkCmp(OpUlt, i64, mkConst(uint64(n), 64))
		if inb == tFalse || (inb != tTrue && !curExec().decide(inb, "index-in-bounds")) {
			panic(runtimePanic(fmt.Sprintf("index out of range [sym] with length %d", n)))
		}
		base := make([]value, n)
		for k := 0; k < n; k++ {
			base[k] = get(k)
		}
		return loadSym(elemT, &symptr{base: base, idx: i64})
	}
	panic("indexValue")
}

// ---- type assertions -------------------------------------------------------

func typeAssert(i *interpreter, instr *ssa.TypeAssert, itf iface) value {
	var v value
	err := ""
	if itf.t == nil {
		err = fmt.Sprintf("interface conversion: interface is nil, not %s", instr.AssertedType)
	} else if idst, ok := instr.AssertedType.Underlying().(*types.Interface); ok {
		v = itf
		err = checkInterface(i, idst, itf)
	} else if types.Identical(itf.t, instr.AssertedType) {
		v = itf.v // extract value
	} else {
		err = fmt.Sprintf("interface conversion: interface is %s, not %s", itf.t, instr.AssertedType)
	}
	if err != "" {
		if !instr.CommaOk {
			panic(targetPanic{iface{tRuntimeError, err}})
		}
		return tuple{zero(instr.AssertedType), false}
	}
	if instr.CommaOk {
		return tuple{v, true}
	}
	return v
}

func checkInterface(i *interpreter, itype *types.Interface, x iface) string {
	if x.t == tRuntimeError {
		// runtime.Error values implement error / Error() string only
		for k := 0; k < itype.NumMethods(); k++ {
			if n := itype.Method(k).Name(); n != "Error" && n != "RuntimeError" {
				return fmt.Sprintf("interface conversion: runtime.Error: missing method %s", n)
			}
		}
		return ""
	}
	if meth, _ := types.MissingMethod(x.t, itype, true); meth != nil {
		return fmt.Sprintf("interface conversion: %v is not %v: missing method %s",
			x.t, itype, meth.Name())
	}
	return ""
}

// ---- builtins ----------------------------------------------------------------

func callBuiltin(fr *frame, callpos token.Pos, fn *ssa.Builtin, args []value, call *ssa.CallCommon) value {
	switch fn.Name() {
	case "append":
		if len(args) == 1 {
			return args[0]
		}
		if isStringVal(args[1]) {
			args[1] = stringToBytes(args[1])
		}
		x := args[0].([]value)
		y := args[1].([]value)
		if len(y) == 0 {
			return x
		}
		if len(x)+len(y) <= cap(x) {
			// in-place growth: writes through the shared backing array
			r := x[:len(x)+len(y)]
			for i := range y {
				setCell(&r[len(x)+i], copyVal(y[i]))
			}
			return r
		}
		ncap := 2 * cap(x)
		if ncap < len(x)+len(y) {
			ncap = len(x) + len(y)
		}
		r := make([]value, len(x)+len(y), ncap)
		for i := range x {
			r[i] = copyVal(x[i])
		}
		for i := range y {
			r[len(x)+i] = copyVal(y[i])
		}
		// spare capacity must hold zero values of the element type
		if ncap > len(r) {
			et := fn.Type().(*types.Signature).Results().At(0).Type().Underlying().(*types.Slice).Elem()
			full := r[:ncap]
			for i := len(r); i < ncap; i++ {
				full[i] = zero(et)
			}
		}
		return r

	case "copy":
		src := args[1]
		if isStringVal(src) {
			src = stringToBytes(src)
		}
		d, s := args[0].([]value), src.([]value)
		n := len(d)
		if len(s) < n {
			n = len(s)
		}
		if n > 0 && &d[0] != &s[0] {
			tmp := make([]value, n)
			for i := 0; i < n; i++ {
				tmp[i] = copyVal(s[i])
			}
			for i := 0; i < n; i++ {
				setCell(&d[i], tmp[i])
			}
		}
		return cint(n)

	case "close":
		chanClose(fr, args[0].(*channel))
		return nil

	case "delete":
		if m := args[0].(*hmap); m != nil {
			m.delete(args[1])
		}
		return nil

	case "print", "println":
		return nil

	case "len":
		switch x := args[0].(type) {
		case string:
			return cint(len(x))
		case *symstr:
			return cint(len(x.b))
		case array:
			return cint(len(x))
		case *value:
			return cint(len((*x).(array)))
		case []value:
			return cint(len(x))
		case *hmap:
			return cint(x.len())
		case *channel:
			return cint(x.length())
		default:
			panic(fmt.Sprintf("len: illegal operand: %T", x))
		}

	case "cap":
		switch x := args[0].(type) {
		case array:
			return cint(len(x))
		case *value:
			return cint(len((*x).(array)))
		case []value:
			return cint(cap(x))
		case *channel:
			if x == nil {
				return cint(0)
			}
			return cint(x.capacity)
		default:
			panic(fmt.Sprintf("cap: illegal operand: %T", x))
		}

	case "min", "max":
		T := call.Args[0].Type()
		r := args[0]
		for _, a := range args[1:] {
			op := token.LSS
			if fn.Name() == "max" {
				op = token.GTR
			}
			if asBool(binop(op, T, a, r, T), "minmax") {
				r = a
			}
		}
		return r

	case "clear":
		switch x := args[0].(type) {
		case *hmap:
			if x != nil {
				for i := range x.keys {
					if x.live[i] {
						x.delete(x.keys[i])
					}
				}
			}
		case []value:
			et := call.Args[0].Type().Underlying().(*types.Slice).Elem()
			for i := range x {
				setCell(&x[i], zero(et))
			}
		}
		return nil

	case "panic":
		panic(targetPanic{args[0]})

	case "recover":
		return doRecover(fr)

	case "ssa:wrapnilchk":
		recv := args[0]
		if p, ok := recv.(*value); ok && p == nil {
			panic(runtimePanic("value method called using nil pointer"))
		}
		return recv

	case "Add": // unsafe.Add(ptr, n)
		p := args[0].(*value)
		n := int(asInt64(args[1]))
		if n == 0 {
			return p
		}
		s := unsafeSliceFrom(p, n+1)
		return &s[n]

	case "Slice": // unsafe.Slice(ptr, n)
		p := args[0].(*value)
		return elemPtrSlice(p, int(asInt64(args[1])))

	case "SliceData":
		s := args[0].([]value)
		if cap(s) == 0 {
			return (*value)(nil)
		}
		return &s[:1][0]

	case "String": // unsafe.String(ptr, n)
		p := args[0].(*value)
		return bytesToString(elemPtrSlice(p, int(asInt64(args[1]))))

	case "StringData":
		b := stringToBytes(args[0])
		if len(b) == 0 {
			return (*value)(nil)
		}
		return &b[0]
	}
	panic(unsupported("builtin " + fn.Name()))
}

func unsafeSliceFrom(p *value, n int) []value { return elemPtrSlice(p, n) }

// rangeIter returns an iterator for range over a map or string.
func rangeIter(x value, t types.Type) iter {
	switch x := x.(type) {
	case *hmap:
		return &mapIter{m: x}
	case string, *symstr:
		return &stringIter{s: x}
	}
	panic(fmt.Sprintf("cannot range over %T", x))
}

// ---- utf8 helpers ----------------------------------------------------------

func utf8NeedsMore(buf []byte) bool {
	return !utf8.FullRune(buf) && len(buf) < 4
}

func decodeRuneBytes(buf []byte) (rune, int) {
	r, size := utf8.DecodeRune(buf)
	if size == 0 {
		size = 1
	}
	return r, size
}

var _ = math.MaxInt64
