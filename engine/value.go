package main

// Value representation of the symbolic interpreter.
//
//   bool, *Term(w=0)          booleans (concrete / symbolic)
//   cint, *Term(w>0)          integers of every Go width; cint is canonical
//                             (sign- or zero-extended to 64 bits by its type)
//   float64                   floats (concrete only)
//   string, *symstr           strings (concrete / per-byte symbolic, concrete length)
//   *value                    pointers (real host pointers into interpreter cells)
//   *symptr                   pointer into an array/slice at a symbolic index
//   []value                   slices (host slice header: off/len/cap are concrete)
//   array, structure          aggregates
//   iface                     interfaces
//   *hmap                     maps
//   *channel                  channels
//   *ssa.Function, *closure, *ssa.Builtin   functions
//   tuple                     multi-value results

import (
	"fmt"
	"go/types"
	"net"
	"sort"
	"strconv"
	"strings"
	"unsafe"

	"golang.org/x/tools/go/ssa"
)

type value interface{}

type cint uint64

type tuple []value
type array []value
type structure []value

type iface struct {
	t types.Type
	v value
}

type closure struct {
	Fn  *ssa.Function
	Env []value
}

// bound method closure of an intrinsic/native function
type nativeFunc struct {
	name string
	fn   func(fr *frame, args []value) value
}

type symstr struct {
	b []value // each cint or *Term (w=8)
}

// absstr is an opaque string produced by a model; only equality is defined.
type absstr struct {
	tag  string
	args []value
}

type pathStep struct {
	field int // struct field or constant array index
}

type symptr struct {
	base []value
	idx  *Term // 64-bit
	path []pathStep
}

type bad struct{}

// ---- types -----------------------------------------------------------------

func intInfo(T types.Type) (w int, signed bool, ok bool) {
	b, isb := T.Underlying().(*types.Basic)
	if !isb {
		return 0, false, false
	}
	switch b.Kind() {
	case types.Int8:
		return 8, true, true
	case types.Int16:
		return 16, true, true
	case types.Int32:
		return 32, true, true
	case types.Int64, types.Int, types.UntypedInt, types.UntypedRune:
		return 64, true, true
	case types.Uint8:
		return 8, false, true
	case types.Uint16:
		return 16, false, true
	case types.Uint32:
		return 32, false, true
	case types.Uint64, types.Uint, types.Uintptr:
		return 64, false, true
	}
	return 0, false, false
}

func isFloat(T types.Type) bool {
	b, ok := T.Underlying().(*types.Basic)
	return ok && b.Info()&types.IsFloat != 0
}

func isString(T types.Type) bool {
	b, ok := T.Underlying().(*types.Basic)
	return ok && b.Info()&types.IsString != 0
}

func isBool(T types.Type) bool {
	b, ok := T.Underlying().(*types.Basic)
	return ok && b.Info()&types.IsBoolean != 0
}

// norm canonicalises raw bits to the cint of type (w, signed).
func norm(v uint64, w int, signed bool) cint {
	if signed {
		return cint(sext64(v&mask(w), w))
	}
	return cint(v & mask(w))
}

func mustDeref(T types.Type) types.Type {
	if p, ok := T.Underlying().(*types.Pointer); ok {
		return p.Elem()
	}
	panic(fmt.Sprintf("mustDeref: %v is not a pointer", T))
}

// zero returns a new zero value of type t.
func zero(t types.Type) value {
	switch t := t.(type) {
	case *types.Basic:
		if t.Kind() == types.UntypedNil {
			panic("untyped nil has no zero value")
		}
		if t.Info()&types.IsUntyped != 0 {
			t = types.Default(t).(*types.Basic)
		}
		switch {
		case t.Info()&types.IsBoolean != 0:
			return false
		case t.Info()&types.IsInteger != 0:
			return cint(0)
		case t.Info()&types.IsFloat != 0:
			return float64(0)
		case t.Info()&types.IsString != 0:
			return ""
		case t.Kind() == types.UnsafePointer:
			return (*value)(nil)
		case t.Info()&types.IsComplex != 0:
			return complex128(0)
		}
		panic(fmt.Sprint("zero for unexpected basic type: ", t))
	case *types.Pointer:
		return (*value)(nil)
	case *types.Array:
		a := make(array, t.Len())
		for i := range a {
			a[i] = zero(t.Elem())
		}
		return a
	case *types.Named:
		return zero(t.Underlying())
	case *types.Alias:
		return zero(types.Unalias(t))
	case *types.Interface:
		return iface{}
	case *types.Slice:
		return []value(nil)
	case *types.Struct:
		s := make(structure, t.NumFields())
		for i := range s {
			s[i] = zero(t.Field(i).Type())
		}
		return s
	case *types.Tuple:
		if t.Len() == 1 {
			return zero(t.At(0).Type())
		}
		s := make(tuple, t.Len())
		for i := range s {
			s[i] = zero(t.At(i).Type())
		}
		return s
	case *types.Chan:
		return (*channel)(nil)
	case *types.Map:
		return (*hmap)(nil)
	case *types.Signature:
		return (*ssa.Function)(nil)
	case *types.TypeParam:
		panic("zero of type parameter")
	}
	panic(fmt.Sprint("zero: unexpected ", t))
}

// ---- undo log ----------------------------------------------------------------

type undoEntry struct {
	addr *value
	old  value
	fn   func()
}

var (
	undoLog     []undoEntry
	undoEnabled bool
)

func setCell(addr *value, v value) {
	if undoEnabled {
		undoLog = append(undoLog, undoEntry{addr: addr, old: *addr})
	}
	*addr = v
}

func logUndo(fn func()) {
	if undoEnabled {
		undoLog = append(undoLog, undoEntry{fn: fn})
	}
}

func rollback() {
	for i := len(undoLog) - 1; i >= 0; i-- {
		e := undoLog[i]
		if e.fn != nil {
			e.fn()
		} else {
			*e.addr = e.old
		}
	}
	undoLog = undoLog[:0]
}

// ---- load / store ----------------------------------------------------------

// copyVal makes an unaliased copy of aggregates.
func copyVal(v value) value {
	switch v := v.(type) {
	case structure:
		a := make(structure, len(v))
		for i := range v {
			a[i] = copyVal(v[i])
		}
		return a
	case array:
		a := make(array, len(v))
		for i := range v {
			a[i] = copyVal(v[i])
		}
		return a
	case tuple:
		a := make(tuple, len(v))
		for i := range v {
			a[i] = copyVal(v[i])
		}
		return a
	}
	return v
}

func load(T types.Type, addr *value) value {
	v := *addr
	// unsafe reinterpretations used by the standard library / easyjson
	switch T.Underlying().(type) {
	case *types.Basic:
		if isString(T) {
			if s, ok := v.([]value); ok { // *(*string)(unsafe.Pointer(&bytes))
				return bytesToString(s)
			}
		}
	case *types.Slice:
		switch s := v.(type) {
		case string: // *(*[]byte)(unsafe.Pointer(&str))
			return stringToBytes(s)
		case *symstr:
			return stringToBytes(s)
		}
	}
	return copyVal(v)
}

func store(T types.Type, addr *value, v value) {
	switch lhs := (*addr).(type) {
	case structure:
		rhs, ok := v.(structure)
		if !ok {
			setCell(addr, copyVal(v))
			return
		}
		st, _ := T.Underlying().(*types.Struct)
		for i := range lhs {
			var ft types.Type
			if st != nil {
				ft = st.Field(i).Type()
			}
			store(ft, &lhs[i], rhs[i])
		}
	case array:
		rhs, ok := v.(array)
		if !ok {
			setCell(addr, copyVal(v))
			return
		}
		var et types.Type
		if at, ok := T.Underlying().(*types.Array); ok && T != nil {
			et = at.Elem()
		}
		for i := range lhs {
			store(et, &lhs[i], rhs[i])
		}
	default:
		setCell(addr, copyVal(v))
	}
}

// ---- strings -----------------------------------------------------------------

func strLen(v value) int {
	switch s := v.(type) {
	case string:
		return len(s)
	case *symstr:
		return len(s.b)
	}
	panic(fmt.Sprintf("strLen of %T", v))
}

func strByte(v value, i int) value {
	switch s := v.(type) {
	case string:
		return cint(s[i])
	case *symstr:
		return s.b[i]
	}
	panic(fmt.Sprintf("strByte of %T", v))
}

func strBytes(v value) []value {
	switch s := v.(type) {
	case string:
		b := make([]value, len(s))
		for i := 0; i < len(s); i++ {
			b[i] = cint(s[i])
		}
		return b
	case *symstr:
		return s.b
	}
	panic(fmt.Sprintf("strBytes of %T", v))
}

// mkStr builds a string value from bytes, collapsing to a host string when concrete.
func mkStr(b []value) value {
	for _, x := range b {
		if _, ok := x.(cint); !ok {
			c := make([]value, len(b))
			copy(c, b)
			return &symstr{c}
		}
	}
	buf := make([]byte, len(b))
	for i, x := range b {
		buf[i] = byte(x.(cint))
	}
	return string(buf)
}

func bytesToString(b []value) value { return mkStr(b) }

func stringToBytes(s value) []value {
	src := strBytes(s)
	out := make([]value, len(src))
	copy(out, src)
	return out
}

func strSlice(v value, lo, hi int) value {
	switch s := v.(type) {
	case string:
		return s[lo:hi]
	case *symstr:
		return mkStr(s.b[lo:hi])
	}
	panic("strSlice")
}

func strConcat(a, b value) value {
	if x, ok := a.(string); ok {
		if y, ok := b.(string); ok {
			return x + y
		}
	}
	return mkStr(append(append([]value{}, strBytes(a)...), strBytes(b)...))
}

func isStringVal(v value) bool {
	switch v.(type) {
	case string, *symstr, *absstr:
		return true
	}
	return false
}

// ---- symbolic helpers ------------------------------------------------------

// toTerm converts an integer value to a term of width w.
func toTerm(v value, w int) *Term {
	switch v := v.(type) {
	case cint:
		return mkConst(uint64(v), w)
	case *Term:
		if v.w != w {
			panic(fmt.Sprintf("toTerm: width %d, want %d (%v)", v.w, w, v))
		}
		return v
	}
	panic(fmt.Sprintf("toTerm: %T", v))
}

func toBoolTerm(v value) *Term {
	switch v := v.(type) {
	case bool:
		return mkBool(v)
	case *Term:
		if v.w != 0 {
			panic("toBoolTerm: bit-vector")
		}
		return v
	}
	panic(fmt.Sprintf("toBoolTerm: %T", v))
}

// fromTerm collapses constant terms to concrete values.
func fromTerm(t *Term, signed bool) value {
	switch t.op {
	case OpConst:
		return norm(t.val, t.w, signed)
	case OpTrue:
		return true
	case OpFalse:
		return false
	}
	return t
}

func isSym(v value) bool {
	switch v := v.(type) {
	case *Term, *symstr, *absstr, *symptr:
		return true
	case structure:
		for _, x := range v {
			if isSym(x) {
				return true
			}
		}
	case array:
		for _, x := range v {
			if isSym(x) {
				return true
			}
		}
	case iface:
		return isSym(v.v)
	}
	return false
}

// eqTerm returns a Bool term (possibly constant) for x == y at type t.
func eqTerm(t types.Type, x, y value) *Term {
	switch x := x.(type) {
	case bool:
		if yb, ok := y.(bool); ok {
			return mkBool(x == yb)
		}
		return mkEq(mkBool(x), y.(*Term))
	case cint:
		switch y := y.(type) {
		case cint:
			return mkBool(x == y)
		case *Term:
			return mkEq(mkConst(uint64(x), y.w), y)
		}
	case *Term:
		switch y := y.(type) {
		case cint:
			return mkEq(x, mkConst(uint64(y), x.w))
		case bool:
			return mkEq(x, mkBool(y))
		case *Term:
			return mkEq(x, y)
		}
	case float64:
		return mkBool(x == y.(float64))
	case complex128:
		return mkBool(x == y.(complex128))
	case string:
		switch y := y.(type) {
		case string:
			return mkBool(x == y)
		case *symstr:
			return strEqTerm(x, y)
		case *absstr:
			return absEq(y, x)
		}
	case *symstr:
		if a, ok := y.(*absstr); ok {
			return absEq(a, x)
		}
		return strEqTerm(x, y)
	case *absstr:
		return absEq(x, y)
	case *value:
		switch y := y.(type) {
		case *value:
			return mkBool(x == y)
		case *symptr:
			return tFalse
		}
	case *symptr:
		if _, ok := y.(*value); ok {
			return tFalse
		}
	case *channel:
		return mkBool(x == y.(*channel))
	case *hmap:
		return mkBool(x == y.(*hmap))
	case structure:
		ys := y.(structure)
		st := t.Underlying().(*types.Struct)
		r := tTrue
		for i := range x {
			if st.Field(i).Name() == "_" {
				continue
			}
			r = mkBAnd(r, eqTerm(st.Field(i).Type(), x[i], ys[i]))
			if r == tFalse {
				return r
			}
		}
		return r
	case array:
		ya := y.(array)
		et := t.Underlying().(*types.Array).Elem()
		r := tTrue
		for i := range x {
			r = mkBAnd(r, eqTerm(et, x[i], ya[i]))
			if r == tFalse {
				return r
			}
		}
		return r
	case iface:
		yi := y.(iface)
		if x.t == nil || yi.t == nil {
			return mkBool(x.t == nil && yi.t == nil)
		}
		if !types.Identical(x.t, yi.t) {
			return tFalse
		}
		if !types.Comparable(x.t) {
			panic(targetPanic{iface{tString, "runtime error: comparing uncomparable type " + x.t.String()}})
		}
		return eqTerm(x.t, x.v, yi.v)
	case *ssa.Function:
		if yf, ok := y.(*ssa.Function); ok {
			return mkBool(x == yf)
		}
		return mkBool(x == nil && y == nil)
	case *closure:
		if yc, ok := y.(*closure); ok {
			return mkBool(x == yc)
		}
		return tFalse
	case []value:
		// only slice == nil reaches here (via eqnil handling)
		return mkBool(x == nil && y.([]value) == nil)
	}
	panic(fmt.Sprintf("eqTerm: unsupported comparison %T == %T (type %v)", x, y, t))
}

func strEqTerm(x, y value) *Term {
	if strLen(x) != strLen(y) {
		return tFalse
	}
	r := tTrue
	xb, yb := strBytes(x), strBytes(y)
	for i := range xb {
		r = mkBAnd(r, eqTerm(nil, xb[i], yb[i]))
		if r == tFalse {
			return r
		}
	}
	return r
}

func absEq(a *absstr, y value) *Term {
	b, ok := y.(*absstr)
	if !ok {
		if a.tag == "concrete-or-sym" {
			return tFalse
		}
		if s, isStr := y.(string); isStr && (a.tag == "ip4" || a.tag == "ip6") {
			// rendering of a symbolic address against a concrete text: equal iff the text is the
			// canonical rendering of an address with those bytes
			ip := net.ParseIP(s)
			if ip == nil || ip.String() != s {
				return tFalse
			}
			var raw []byte
			if a.tag == "ip4" {
				if raw = ip.To4(); raw == nil {
					return tFalse
				}
			} else {
				if ip.To4() != nil {
					return tFalse
				}
				raw = ip.To16()
			}
			r := tTrue
			for i := range a.args {
				r = mkBAnd(r, eqTerm(nil, a.args[i], cint(raw[i])))
			}
			return r
		}
		panic(unsupported(fmt.Sprintf("comparison of opaque string %s with %T", a.tag, y)))
	}
	if a.tag != b.tag || len(a.args) != len(b.args) {
		if absInjective[a.tag] && absInjective[b.tag] {
			return tFalse
		}
		panic(unsupported("comparison of opaque strings " + a.tag + " / " + b.tag))
	}
	r := tTrue
	for i := range a.args {
		r = mkBAnd(r, eqTerm(nil, a.args[i], b.args[i]))
	}
	return r
}

// tags whose renderings are known to be pairwise distinct across tags
var absInjective = map[string]bool{"ip4": true, "ip6": true}

var tString = types.Typ[types.String]

// ---- maps ------------------------------------------------------------------

type hmap struct {
	keyT types.Type
	idx  map[string]int
	keys []value
	vals []value
	live []bool
	n    int
}

func newMap(kt types.Type) *hmap {
	return &hmap{keyT: kt, idx: map[string]int{}}
}

// keyString serialises a fully concrete key; ok=false if the key is symbolic.
func keyString(v value) (string, bool) {
	var sb strings.Builder
	ok := writeKey(&sb, v)
	return sb.String(), ok
}

func writeKey(sb *strings.Builder, v value) bool {
	switch v := v.(type) {
	case bool:
		if v {
			sb.WriteString("bT;")
		} else {
			sb.WriteString("bF;")
		}
	case cint:
		sb.WriteByte('i')
		sb.WriteString(strconv.FormatUint(uint64(v), 10))
		sb.WriteByte(';')
	case float64:
		fmt.Fprintf(sb, "f%v;", v)
	case string:
		sb.WriteByte('s')
		sb.WriteString(strconv.Itoa(len(v)))
		sb.WriteByte(':')
		sb.WriteString(v)
		sb.WriteByte(';')
	case *value:
		fmt.Fprintf(sb, "p%p;", v)
	case *channel:
		fmt.Fprintf(sb, "c%p;", v)
	case structure:
		sb.WriteString("{")
		for _, x := range v {
			if !writeKey(sb, x) {
				return false
			}
		}
		sb.WriteString("}")
	case array:
		sb.WriteString("[")
		for _, x := range v {
			if !writeKey(sb, x) {
				return false
			}
		}
		sb.WriteString("]")
	case iface:
		if v.t == nil {
			sb.WriteString("nil;")
		} else {
			sb.WriteByte('T')
			sb.WriteString(v.t.String())
			sb.WriteByte(':')
			return writeKey(sb, v.v)
		}
	default:
		return false
	}
	return true
}

func (m *hmap) len() int {
	if m == nil {
		return 0
	}
	return m.n
}

// find returns the index of the entry equal to k, or -1.  Symbolic keys fork.
func (m *hmap) find(k value) int {
	if m == nil {
		return -1
	}
	if ks, ok := keyString(k); ok && !m.hasSymKeys() {
		if i, ok := m.idx[ks]; ok && m.live[i] {
			return i
		}
		return -1
	}
	for i := range m.keys {
		if !m.live[i] {
			continue
		}
		c := eqTerm(m.keyT, k, m.keys[i])
		if c == tFalse {
			continue
		}
		if c == tTrue || curExec().decide(c, "mapkey") {
			return i
		}
	}
	return -1
}

var symKeyMaps = map[*hmap]bool{}

func (m *hmap) hasSymKeys() bool { return symKeyMaps[m] }

func (m *hmap) lookup(k value) (value, bool) {
	i := m.find(k)
	if i < 0 {
		return nil, false
	}
	return m.vals[i], true
}

func (m *hmap) insert(k, v value) {
	i := m.find(k)
	if i >= 0 {
		old := m.vals[i]
		logUndo(func() { m.vals[i] = old })
		m.vals[i] = v
		return
	}
	ks, ok := keyString(k)
	if !ok {
		symKeyMaps[m] = true
		logUndo(func() { delete(symKeyMaps, m) })
	}
	pos := len(m.keys)
	m.keys = append(m.keys, copyVal(k))
	m.vals = append(m.vals, v)
	m.live = append(m.live, true)
	m.n++
	var hadOld bool
	var oldIdx int
	if ok {
		oldIdx, hadOld = m.idx[ks]
		m.idx[ks] = pos
	}
	logUndo(func() {
		m.keys = m.keys[:pos]
		m.vals = m.vals[:pos]
		m.live = m.live[:pos]
		m.n--
		if ok {
			if hadOld {
				m.idx[ks] = oldIdx
			} else {
				delete(m.idx, ks)
			}
		}
	})
}

func (m *hmap) delete(k value) {
	i := m.find(k)
	if i < 0 {
		return
	}
	m.live[i] = false
	m.n--
	logUndo(func() { m.live[i] = true; m.n++ })
}

// ---- iterators -------------------------------------------------------------

type iter interface {
	next() tuple
}

type mapIter struct {
	m *hmap
	i int
}

func (it *mapIter) next() tuple {
	if it.m != nil {
		for it.i < len(it.m.keys) {
			i := it.i
			it.i++
			if it.m.live[i] {
				return tuple{true, it.m.keys[i], it.m.vals[i]}
			}
		}
	}
	return tuple{false, nil, nil}
}

type stringIter struct {
	s value
	i int
}

func (it *stringIter) next() tuple {
	n := strLen(it.s)
	if it.i >= n {
		return tuple{false, cint(0), cint(0)}
	}
	start := it.i
	r, size := decodeRune(it.s, it.i)
	it.i += size
	return tuple{true, cint(start), r}
}

// decodeRune decodes one UTF-8 rune at offset i; symbolic bytes fork by class.
func decodeRune(s value, i int) (value, int) {
	n := strLen(s)
	b0 := strByte(s, i)
	ex := curExec()
	if c, ok := b0.(cint); ok && c < 0x80 {
		return cint(c), 1
	}
	if t, ok := b0.(*Term); ok {
		if ex.decide(mkCmp(OpUlt, t, mkConst(0x80, 8)), "utf8-ascii") {
			return mkZext(t, 32), 1
		}
	}
	// multi-byte: concretise the bytes involved (bounded forking), then decode natively
	buf := make([]byte, 0, 4)
	for j := i; j < n && j < i+4; j++ {
		b := strByte(s, j)
		if t, ok := b.(*Term); ok {
			buf = append(buf, byte(ex.concretize(t, "utf8-byte")))
		} else {
			buf = append(buf, byte(b.(cint)))
		}
		if !utf8NeedsMore(buf) {
			break
		}
	}
	r, size := decodeRuneBytes(buf)
	return cint(int64(r)), size
}

// ---- debugging -------------------------------------------------------------

func toString(v value) string {
	var sb strings.Builder
	writeValue(&sb, v, 0)
	return sb.String()
}

func writeValue(sb *strings.Builder, v value, d int) {
	if d > 4 {
		sb.WriteString("…")
		return
	}
	switch v := v.(type) {
	case nil:
		sb.WriteString("<nil>")
	case bool, float64:
		fmt.Fprintf(sb, "%v", v)
	case cint:
		fmt.Fprintf(sb, "%d", int64(v))
	case string:
		fmt.Fprintf(sb, "%q", v)
	case *Term:
		sb.WriteString(v.String())
	case *symstr:
		sb.WriteString("symstr[")
		for i, x := range v.b {
			if i > 0 {
				sb.WriteString(" ")
			}
			writeValue(sb, x, d+1)
		}
		sb.WriteString("]")
	case *absstr:
		fmt.Fprintf(sb, "abs<%s>", v.tag)
	case *value:
		if v == nil {
			sb.WriteString("nilptr")
		} else {
			fmt.Fprintf(sb, "&%p", v)
		}
	case iface:
		if v.t == nil {
			sb.WriteString("nil-iface")
		} else {
			fmt.Fprintf(sb, "(%s)", v.t)
			writeValue(sb, v.v, d+1)
		}
	case structure:
		sb.WriteString("{")
		for i, e := range v {
			if i > 0 {
				sb.WriteString(" ")
			}
			writeValue(sb, e, d+1)
		}
		sb.WriteString("}")
	case array:
		sb.WriteString("[")
		for i, e := range v {
			if i > 8 {
				sb.WriteString(" …")
				break
			}
			if i > 0 {
				sb.WriteString(" ")
			}
			writeValue(sb, e, d+1)
		}
		sb.WriteString("]")
	case []value:
		fmt.Fprintf(sb, "slice(len=%d)[", len(v))
		for i, e := range v {
			if i > 8 {
				sb.WriteString(" …")
				break
			}
			if i > 0 {
				sb.WriteString(" ")
			}
			writeValue(sb, e, d+1)
		}
		sb.WriteString("]")
	case tuple:
		sb.WriteString("(")
		for i, e := range v {
			if i > 0 {
				sb.WriteString(", ")
			}
			writeValue(sb, e, d+1)
		}
		sb.WriteString(")")
	case *ssa.Function:
		if v == nil {
			sb.WriteString("nilfunc")
		} else {
			sb.WriteString(v.String())
		}
	default:
		fmt.Fprintf(sb, "<%T>", v)
	}
}

// elemPtrSlice rebuilds the n-element slice that starts at element pointer p.
func elemPtrSlice(p *value, n int) []value {
	if n == 0 || p == nil {
		return []value{}
	}
	return unsafe.Slice(p, n)
}

func sortedKeys(m map[string]bool) []string {
	var ks []string
	for k := range m {
		ks = append(ks, k)
	}
	sort.Strings(ks)
	return ks
}
