package main

// Persistent SMT solver processes driven over a pipe (SMT-LIB2).

import (
	"bufio"
	"fmt"
	"io"
	"os"
	osexec "os/exec"
	"strconv"
	"strings"
	"time"
)

type SatResult int

const (
	Sat SatResult = iota
	Unsat
	Unknown
)

func (r SatResult) String() string {
	return [...]string{"sat", "unsat", "unknown"}[r]
}

type SolverStats struct {
	Queries  int
	Sat      int
	Unsat    int
	Unknown  int
	Errors   int
	Seconds  float64
	MaxQuery float64
}

type Solver struct {
	name    string
	cmd     *osexec.Cmd
	in      io.WriteCloser
	out     *bufio.Reader
	defined map[*Term]bool
	depth   int
	stats   SolverStats
	timeout int // ms per query
	log     io.Writer
	lastAssert string
	seq     int
	dead    bool
}

func solverArgv(kind string) []string {
	switch kind {
	case "z3":
		return []string{"z3", "-in"}
	case "z3-new":
		return []string{"z3-new", "-in"}
	case "cvc5":
		return []string{"cvc5", "--incremental", "--produce-models", "--lang=smt2"}
	case "cvc5-int":
		return []string{"cvc5", "--incremental", "--produce-models", "--lang=smt2", "--solve-bv-as-int=sum"}
	}
	panic("unknown solver " + kind)
}

func NewSolver(kind string, timeoutMs int) (*Solver, error) {
	argv := solverArgv(kind)
	cmd := osexec.Command(argv[0], argv[1:]...)
	in, err := cmd.StdinPipe()
	if err != nil {
		return nil, err
	}
	outp, err := cmd.StdoutPipe()
	if err != nil {
		return nil, err
	}
	cmd.Stderr = cmd.Stdout
	if err := cmd.Start(); err != nil {
		return nil, err
	}
	s := &Solver{name: kind, cmd: cmd, in: in, out: bufio.NewReaderSize(outp, 1<<20),
		defined: map[*Term]bool{}, timeout: timeoutMs}
	s.send("(set-option :global-declarations true)")
	s.send("(set-option :produce-models true)")
	if strings.HasPrefix(kind, "z3") {
		s.send(fmt.Sprintf("(set-option :timeout %d)", timeoutMs))
	} else {
		s.send(fmt.Sprintf("(set-option :tlimit-per %d)", timeoutMs))
		s.send("(set-logic ALL)")
	}
	if lines := s.sync(); hasError(lines) {
		return nil, fmt.Errorf("solver %s init: %v", kind, lines)
	}
	return s, nil
}

func (s *Solver) Close() {
	if s == nil || s.dead {
		return
	}
	s.dead = true
	s.in.Close()
	done := make(chan struct{})
	go func() { s.cmd.Wait(); close(done) }()
	select {
	case <-done:
	case <-time.After(2 * time.Second):
		s.cmd.Process.Kill()
	}
}

func (s *Solver) send(line string) {
	if s.log != nil {
		fmt.Fprintln(s.log, line)
	}
	io.WriteString(s.in, line)
	io.WriteString(s.in, "\n")
}

// sync flushes the solver and returns all output lines produced so far.
func (s *Solver) sync() []string {
	s.seq++
	marker := fmt.Sprintf("<<sync-%d>>", s.seq)
	s.send(fmt.Sprintf("(echo \"%s\")", marker))
	var lines []string
	for {
		line, err := s.out.ReadString('\n')
		line = strings.TrimSpace(line)
		if strings.Contains(line, marker) {
			return lines
		}
		if line != "" {
			lines = append(lines, line)
		}
		if err != nil {
			s.dead = true
			lines = append(lines, "(error \"solver died: "+err.Error()+"\")")
			return lines
		}
	}
}

func hasError(lines []string) bool {
	for _, l := range lines {
		if strings.Contains(l, "(error") {
			return true
		}
	}
	return false
}

// define makes sure t (and everything below it) is known to the solver.
func (s *Solver) define(t *Term) {
	if s.defined[t] {
		return
	}
	// iterative post-order to survive deep terms
	type item struct {
		t    *Term
		done bool
	}
	stack := []item{{t, false}}
	for len(stack) > 0 {
		it := stack[len(stack)-1]
		stack = stack[:len(stack)-1]
		if s.defined[it.t] {
			continue
		}
		if it.done || len(it.t.args) == 0 {
			s.defined[it.t] = true
			switch it.t.op {
			case OpVar:
				s.send(fmt.Sprintf("(declare-const %s %s)", it.t.ref(), sortStr(it.t.w)))
			case OpConst, OpTrue, OpFalse:
			default:
				s.send(fmt.Sprintf("(define-fun %s () %s %s)", it.t.ref(), sortStr(it.t.w), it.t.body()))
			}
			continue
		}
		stack = append(stack, item{it.t, true})
		for _, a := range it.t.args {
			if !s.defined[a] {
				stack = append(stack, item{a, false})
			}
		}
	}
}

func (s *Solver) Push() {
	s.send("(push 1)")
	s.depth++
}

func (s *Solver) Pop(n int) {
	if n <= 0 {
		return
	}
	s.send(fmt.Sprintf("(pop %d)", n))
	s.depth -= n
}

func (s *Solver) Assert(t *Term) {
	if t.w != 0 {
		panic("Assert: non-Bool term")
	}
	s.define(t)
	if os.Getenv("GOSYM_SLOW") != "" {
		s.lastAssert = t.String()
	}
	s.send(fmt.Sprintf("(assert %s)", t.ref()))
}

// Check runs check-sat.  Any error output makes the result Unknown.
func (s *Solver) Check() SatResult {
	if s.dead {
		s.stats.Queries++
		s.stats.Errors++
		return Unknown
	}
	pre := s.sync()
	start := time.Now()
	s.send("(check-sat)")
	lines := s.sync()
	el := time.Since(start).Seconds()
	s.stats.Queries++
	s.stats.Seconds += el
	if el > s.stats.MaxQuery {
		s.stats.MaxQuery = el
	}
	if hasError(pre) || hasError(lines) {
		s.stats.Errors++
		s.stats.Unknown++
		if s.log != nil {
			fmt.Fprintf(s.log, "; ERROR %v %v\n", pre, lines)
		}
		lastSolverError = fmt.Sprint(pre, lines)
		return Unknown
	}
	for _, l := range lines {
		switch l {
		case "sat":
			s.stats.Sat++
			return Sat
		case "unsat":
			s.stats.Unsat++
			return Unsat
		}
	}
	s.stats.Unknown++
	return Unknown
}

var lastSolverError string

// Values returns the model values of the given terms (after a Sat Check).
func (s *Solver) Values(ts []*Term) ([]uint64, error) {
	if len(ts) == 0 {
		return nil, nil
	}
	out := make([]uint64, len(ts))
	// chunk to keep lines reasonable
	for base := 0; base < len(ts); base += 200 {
		end := base + 200
		if end > len(ts) {
			end = len(ts)
		}
		var sb strings.Builder
		sb.WriteString("(get-value (")
		for _, t := range ts[base:end] {
			s.define(t)
			sb.WriteString(t.ref())
			sb.WriteString(" ")
		}
		sb.WriteString("))")
		s.send(sb.String())
		lines := s.sync()
		if hasError(lines) {
			return nil, fmt.Errorf("get-value: %v", lines)
		}
		vals := parseValues(strings.Join(lines, " "))
		if len(vals) != end-base {
			return nil, fmt.Errorf("get-value: parsed %d values for %d terms: %v", len(vals), end-base, lines)
		}
		copy(out[base:end], vals)
	}
	return out, nil
}

// parseValues extracts the value literals from a get-value response, in order.
func parseValues(s string) []uint64 {
	var vals []uint64
	// Tokenise: we look for "#x..", "#b..", "(_ bvN W)", "true", "false" that
	// appear as the second element of each pair.  Pairs look like (name value).
	// Names may be |quoted| and may contain anything, so strip quoted symbols first.
	var sb strings.Builder
	inq := false
	for _, r := range s {
		if r == '|' {
			inq = !inq
			sb.WriteByte('Q')
			continue
		}
		if !inq {
			sb.WriteRune(r)
		}
	}
	toks := strings.Fields(strings.NewReplacer("(", " ( ", ")", " ) ").Replace(sb.String()))
	// parse s-expr: ( ( name value ) ( name value ) ... )
	i := 0
	var parseVal func() (uint64, bool)
	parseVal = func() (uint64, bool) {
		if i >= len(toks) {
			return 0, false
		}
		t := toks[i]
		switch {
		case strings.HasPrefix(t, "#x"):
			i++
			v, _ := strconv.ParseUint(t[2:], 16, 64)
			return v, true
		case strings.HasPrefix(t, "#b"):
			i++
			v, _ := strconv.ParseUint(t[2:], 2, 64)
			return v, true
		case t == "true":
			i++
			return 1, true
		case t == "false":
			i++
			return 0, true
		case t == "(":
			// (_ bvN W)
			if i+4 < len(toks) && toks[i+1] == "_" && strings.HasPrefix(toks[i+2], "bv") {
				v, _ := strconv.ParseUint(toks[i+2][2:], 10, 64)
				i += 5
				return v, true
			}
		}
		return 0, false
	}
	// skip outer "("
	for i < len(toks) {
		if toks[i] == "(" && i+1 < len(toks) && toks[i+1] == "(" {
			i++
			break
		}
		i++
	}
	for i < len(toks) {
		if toks[i] != "(" {
			i++
			continue
		}
		i++ // "("
		// name: either a symbol token or a parenthesised expression (for consts refs like (_ bv1 8))
		if i < len(toks) && toks[i] == "(" {
			depth := 0
			for i < len(toks) {
				if toks[i] == "(" {
					depth++
				} else if toks[i] == ")" {
					depth--
					if depth == 0 {
						i++
						break
					}
				}
				i++
			}
		} else {
			i++
		}
		v, ok := parseVal()
		if !ok {
			return vals
		}
		vals = append(vals, v)
		if i < len(toks) && toks[i] == ")" {
			i++
		}
	}
	return vals
}
