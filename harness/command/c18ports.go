package command

import (
	"io"
	"os"
	"strings"

	"github.com/v-byte-cpu/sx/pkg/scan"
)

var c18PortsOpens int

func verifSeam_portsFileOpen(name string) (io.ReadCloser, error) {
	c18PortsOpens++
	if name != "ports.txt" {
		return nil, os.ErrNotExist
	}
	return io.NopCloser(strings.NewReader("443\n# comment\n8080-8081\n")), nil
}

func c18HasRange(rs []*scan.PortRange, a, b uint16) int {
	n := 0
	for _, r := range rs {
		if r != nil && r.StartPort == a && r.EndPort == b {
			n++
		}
	}
	return n
}

// VerifH_C18_rawPorts: -p and --ports-file in every combination through the real parseRawOptions of the
// port-scan commands (COPY 0: tcp/udp, COPY 1: socks/docker/elastic): the ports scanned are the ranges
// of -p AND the ranges of the file - neither source replaces the other.
func VerifH_C18_rawPorts() {
	gp, gf := ndBool("-p"), ndBool("--ports-file")
	raw, file := "", ""
	if gp {
		raw = "22,80-81"
	}
	if gf {
		file = "ports.txt"
	}
	c18PortsOpens = 0
	var got []*scan.PortRange
	var err error
	if verifParam("COPY", 0) == 0 {
		o := &ipPortScanCmdOpts{}
		o.rawPortRanges, o.portFile = raw, file
		err = o.parseRawOptions()
		got = o.portRanges
	} else {
		o := &genericScanCmdOpts{workers: 4}
		o.rawPortRanges, o.portFile = raw, file
		err = o.parseRawOptions()
		got = o.portRanges
	}
	verifAssert(err == nil, "well-formed port options refused")
	want := 0
	if gp {
		want += 2
		verifAssert(c18HasRange(got, 22, 22) == 1 && c18HasRange(got, 80, 81) == 1, "the ranges given with -p are not scanned exactly once (replaced by the ports file?)")
	}
	if gf {
		want += 2
		verifAssert(c18PortsOpens == 1, "ports file not read exactly once")
		verifAssert(c18HasRange(got, 443, 443) == 1 && c18HasRange(got, 8080, 8081) == 1, "the ranges of the ports file are not scanned exactly once")
	}
	verifAssert(len(got) == want, "ports scanned that were not asked for, or some lost")
	verifCover("done")
}
