package command

import (
	"context"
	"io"

	"github.com/v-byte-cpu/sx/command/log"
	"github.com/v-byte-cpu/sx/pkg/scan"
)

type c08Rec struct{ id string }

func (r *c08Rec) String() string               { return r.id }
func (r *c08Rec) ID() string                   { return r.id }
func (r *c08Rec) MarshalJSON() ([]byte, error) { return []byte(`{"id":"` + r.id + `"}`), nil }

type c08Sink struct {
	got  []string
	opts int
}

func (l *c08Sink) Error(err error) {}
func (l *c08Sink) LogResults(ctx context.Context, results <-chan scan.Result) {
	for r := range results {
		l.got = append(l.got, r.ID())
	}
}

var c08TheSink *c08Sink

// seam on log.NewLogger inside genericScanCmdOpts.getLogger: the record writer proper (zap, bufio, the
// encoders) is C14's subject; here only what the command stacks on top of it matters
func verifSeam_newGenericLogger(w io.Writer, name string, opts ...log.LoggerOption) (log.Logger, error) {
	c08TheSink = &c08Sink{opts: len(opts)}
	return c08TheSink, nil
}

// VerifH_C08_loggerKeepsAll: the logger the socks/docker/elastic commands build prints one record per
// detecting probe - also when two probes detect the same host:port (a target listed twice, overlapping
// port ranges): K results with solver-chosen equalities between their ids all reach the record writer,
// in order.
func VerifH_C08_loggerKeepsAll() {
	o := &genericScanCmdOpts{json: ndBool("json")}
	lg, err := o.getLogger("socks", io.Discard)
	verifAssert(err == nil && lg != nil && c08TheSink != nil, "no logger")
	if err != nil || lg == nil || c08TheSink == nil {
		return
	}
	K := 4
	ch := make(chan scan.Result, K)
	var want []string
	for i := 0; i < K; i++ {
		id := []string{"10.0.0.1:1080", "10.0.0.2:1080", "10.0.0.1:1081"}[int(verifConcretize(uint64(ndU8("id")%3)))]
		want = append(want, id)
		ch <- &c08Rec{id}
	}
	close(ch)
	lg.LogResults(context.Background(), ch)
	got := c08TheSink.got
	verifAssert(len(got) == K, "a detecting probe's record was not printed (results with the same host:port de-duplicated?) or one was printed twice")
	for i := 0; i < K && i < len(got); i++ {
		verifAssert(got[i] == want[i], "records printed in another order than produced")
	}
	verifCover("done")
}
