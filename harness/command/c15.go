package command

import (
	"context"
	"net"
	"time"

	"github.com/v-byte-cpu/sx/pkg/packet"
	"github.com/v-byte-cpu/sx/pkg/packet/afpacket"
	"github.com/v-byte-cpu/sx/pkg/scan"
	"go.uber.org/ratelimit"
)

// ---- seams: the limiter constructor, the AF_PACKET source and the engine set-up ----

type c15Limiter struct {
	rate   int
	window time.Duration
	takes  int
	log    *[]string
}

func (l *c15Limiter) Take() time.Time {
	l.takes++
	if l.log != nil {
		*l.log = append(*l.log, "take")
	}
	return time.Time{}
}

var (
	c15News    []*c15Limiter
	c15Windows []time.Duration
	c15Log     []string
	c15GotRW   packet.ReadWriter
	c15Source  *afpacket.Source
	c15Filter  string
)

func verifSeam_Per(d time.Duration) ratelimit.Option {
	c15Windows = append(c15Windows, d)
	return ratelimit.Per(d)
}

func verifSeam_ratelimitNew(rate int, opts ...ratelimit.Option) ratelimit.Limiter {
	l := &c15Limiter{rate: rate, window: -1, log: &c15Log}
	if len(opts) == 1 && len(c15Windows) > 0 {
		l.window = c15Windows[len(c15Windows)-1]
	}
	c15News = append(c15News, l)
	return l
}

func verifSeam_NewPacketSource(iface string, vpn bool) (*afpacket.Source, error) {
	c15Source = &afpacket.Source{}
	return c15Source, nil
}

func verifSeam_srcClose(s *afpacket.Source) {}

func verifSeam_srcSetBPF(s *afpacket.Source, filter string, snap int) error {
	c15Filter = filter
	return nil
}

func verifSeam_SetupPacketEngine(rw packet.ReadWriter, m scan.PacketMethod) scan.EngineResulter {
	c15GotRW = rw
	return &c16Engine{results: scan.NewResultChan(context.Background(), 10), errcOnDone: true}
}

func c15Reset() {
	c15News, c15Windows, c15Log, c15GotRW, c15Source, c15Filter = nil, nil, nil, nil, nil, ""
}

// VerifH_C15_packetWiring: startPacketScanEngine with every rate count and window.
func VerifH_C15_packetWiring() {
	c15Reset()
	count := int(int32(ndU32("count")))
	window := time.Duration(ndU64("window"))
	lg := &c16Logger{}
	conf := newPacketScanConfig(
		withPacketBPFFilter(func(r *scan.Range) (string, int) { return "tcp", 64 }),
		withRateCount(count), withRateWindow(window),
		withPacketEngineConfig(newEngineConfig(withLogger(lg), withScanRange(&scan.Range{Interface: ifaceLo()}), withExitDelay(0))))
	err := startPacketScanEngine(context.Background(), conf)
	verifAssert(err == nil, "packet scan engine failed to start")
	if count > 0 {
		verifCover("limited")
		verifAssert(len(c15News) == 1, "rate limit requested but no limiter (or several) created")
		if len(c15News) == 1 {
			verifAssert(c15News[0].rate == count && c15News[0].window == window, "the limiter does not get the configured count and window verbatim")
		}
		_, direct := c15GotRW.(*afpacket.Source)
		verifAssert(c15GotRW != nil && !direct, "the engine writes to the socket directly although a rate limit was requested")
	} else {
		verifCover("unlimited")
		verifAssert(len(c15News) == 0, "a limiter was created although no rate limit was requested")
		src, direct := c15GotRW.(*afpacket.Source)
		verifAssert(direct && src == c15Source, "the engine does not use the packet source directly")
	}
}

type c15Scanner struct{ calls int }

func (s *c15Scanner) Scan(ctx context.Context, r *scan.Request) (scan.Result, error) {
	s.calls++
	c15Log = append(c15Log, "scan")
	return nil, nil
}

// VerifH_C15_genericWiring: newScanEngine with every rate count and window; two targets are scanned.
func VerifH_C15_genericWiring() {
	c15Reset()
	o := &genericScanCmdOpts{workers: 1}
	o.rateCount = int(int32(ndU32("count")))
	o.rateWindow = time.Duration(ndU64("window"))
	o.portRanges = []*scan.PortRange{{StartPort: 80, EndPort: 81}}
	ctx, cancel := context.WithCancel(context.Background())
	defer cancel()
	sc := &c15Scanner{}
	eng := o.newScanEngine(ctx, sc)
	_, ipnet, _ := parseCIDR("10.0.0.1/32")
	done, errc := eng.Start(ctx, &scan.Range{DstSubnet: ipnet, Ports: o.portRanges})
	go func() {
		for range errc {
		}
	}()
	<-done
	verifAssert(sc.calls == 2, "two targets, but not two probes")
	if o.rateCount > 0 {
		verifCover("limited")
		verifAssert(len(c15News) == 1 && c15News[0].rate == o.rateCount && c15News[0].window == o.rateWindow, "the limiter does not get the configured count and window verbatim")
		ok := len(c15Log) == 4 && c15Log[0] == "take" && c15Log[1] == "scan" && c15Log[2] == "take" && c15Log[3] == "scan"
		verifAssert(ok, "probes are not each charged to the limiter exactly once, before they start")
	} else {
		verifCover("unlimited")
		verifAssert(len(c15News) == 0 && len(c15Log) == 2, "limiter used although no rate limit was requested")
	}
}

func ifaceLo() *net.Interface { return &net.Interface{Index: 1, Name: "lo"} }

func parseCIDR(s string) (net.IP, *net.IPNet, error) { return net.ParseCIDR(s) }

type c08GateScanner struct {
	inflight, max int
	release       chan struct{}
	calls         int
}

func (s *c08GateScanner) Scan(ctx context.Context, r *scan.Request) (scan.Result, error) {
	s.calls++
	s.inflight++
	if s.inflight > s.max {
		s.max = s.inflight
	}
	<-s.release
	s.inflight--
	return nil, nil
}

// VerifH_C08_workers: --workers W reaches the engine: with more targets than workers and probes
// that do not finish, exactly W probes are in flight.
func VerifH_C08_workers() {
	c15Reset()
	W := verifParam("W", 2)
	o := &genericScanCmdOpts{workers: W}
	o.portRanges = []*scan.PortRange{{StartPort: 80, EndPort: 81}}
	ctx, cancel := context.WithCancel(context.Background())
	defer cancel()
	sc := &c08GateScanner{release: make(chan struct{})}
	eng := o.newScanEngine(ctx, sc)
	_, ipnet, _ := parseCIDR("10.0.0.0/30")
	done, errc := eng.Start(ctx, &scan.Range{DstSubnet: ipnet, Ports: o.portRanges})
	go func() {
		for range errc {
		}
	}()
	time.Sleep(time.Millisecond) // every worker is now inside a probe
	verifAssert(sc.max == W && sc.inflight == W, "the number of concurrent probes is not the configured worker count")
	close(sc.release)
	<-done
	verifAssert(sc.calls == 8, "4 addresses x 2 ports, but not 8 probes")
	verifCover("done")
}
