package command

import (
	"net"
	"time"

	"github.com/v-byte-cpu/sx/pkg/scan"
)

type c18Container struct{}

func (c18Container) Contains(ip net.IP) (bool, error) { return false, nil }

var (
	c18RawExcl  scan.IPContainer = c18Container{}
	c18ExclN    int
	c18IfaceN   int
	c18RawIface = &net.Interface{Index: 9, Name: "eth9"}
)

func verifSeam_rawParseExclude(open openFileFunc) (scan.IPContainer, error) {
	c18ExclN++
	return c18RawExcl, nil
}

func verifSeam_rawIfaceByName(name string) (*net.Interface, error) {
	c18IfaceN++
	verifAssert(name == "eth9", "interface looked up under another name")
	return c18RawIface, nil
}

// VerifH_C18_rawOptions: the raw-option parser of the packet commands with every subset of
// --iface, --srcmac, --rate and --exclude given: each given option is parsed and stored, each
// absent one stays unset - whatever else is on the command line.
func VerifH_C18_rawOptions() {
	o := &packetScanCmdOpts{}
	gi, gm, gr, ge := ndBool("iface"), ndBool("srcmac"), ndBool("rate"), ndBool("exclude")
	if gi {
		o.rawInterface = "eth9"
	}
	if gm {
		o.rawSrcMAC = "00:01:02:03:04:05"
	}
	if gr {
		o.rawRateLimit = "7/2s"
	}
	if ge {
		o.rawExcludeFile = "exclude.txt"
	}
	c18ExclN, c18IfaceN = 0, 0
	err := o.parseRawOptions()
	verifAssert(err == nil, "well-formed options refused")
	verifAssert((o.iface == c18RawIface) == gi && (o.iface == nil) == !gi && c18IfaceN == b2i(gi), "--iface not honoured exactly when given")
	verifAssert((len(o.srcMAC) == 6) == gm && (o.srcMAC == nil) == !gm, "--srcmac not honoured exactly when given")
	if gm && len(o.srcMAC) == 6 {
		verifAssert(o.srcMAC[0] == 0 && o.srcMAC[5] == 5, "--srcmac value altered")
	}
	if gr {
		verifCover("rate")
		verifAssert(o.rateCount == 7 && o.rateWindow == 2*time.Second, "--rate is lost or altered (in combination with the other options)")
	} else {
		verifAssert(o.rateCount == 0 && o.rateWindow == 0, "a rate limit appeared although none was given")
	}
	verifAssert((o.excludeIPs != nil) == ge && c18ExclN == b2i(ge), "--exclude not honoured exactly when given")
	verifCover("done")
}

func b2i(b bool) int {
	if b {
		return 1
	}
	return 0
}
