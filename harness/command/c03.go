package command

import (
	"github.com/v-byte-cpu/sx/pkg/scan/arp"
	"context"
	"net"

	"github.com/v-byte-cpu/sx/pkg/scan"
	"github.com/v-byte-cpu/sx/pkg/scan/tcp"
)

// ---- wiring extraction of the SYN scan command ----

var c03Conf *packetScanConfig

func verifSeam_startPortScanEngine(ctx context.Context, conf *packetScanConfig) error {
	c03Conf = conf
	return nil
}

var c03Range *scan.Range

func verifSeam_synParseOptions(o *tcpSYNCmdOpts, scanName string, args []string) error {
	o.scanRange = c03Range
	o.vpnMode = false
	o.cache = arp.NewCache()
	o.gatewayMAC = net.HardwareAddr{0x10, 0x11, 0x12, 0x13, 0x14, 0x15}
	return nil
}

// VerifH_C03_synWiring: the SYN command's own wiring (startScan up to the engine start):
// which filter function, processor filter, flag printer and target range reach the engine,
// then the same composition check as VerifH_C03_tcp on frames of LEN bytes.
func VerifH_C03_synWiring() {
	n := verifParam("LEN", 54)
	c03Range = &scan.Range{
		DstSubnet: &net.IPNet{IP: net.IPv4(192, 168, 0, 0).To4(), Mask: net.CIDRMask(24, 32)},
		Ports:     []*scan.PortRange{{StartPort: 22, EndPort: 22}, {StartPort: 80, EndPort: 90}},
	}
	c03Conf = nil
	ctx, cancel := context.WithCancel(context.Background())
	defer cancel()
	err := newTCPSYNCmdOpts(tcpCmdOpts{}).startScan(ctx, nil)
	verifAssert(err == nil && c03Conf != nil, "the SYN command did not reach the engine start")
	if c03Conf == nil {
		return
	}
	verifAssert(c03Conf.scanRange.DstSubnet == c03Range.DstSubnet && len(c03Conf.scanRange.Ports) == 2, "the target range handed to the engine is not the parsed one")
	text, snap := c03Conf.bpfFilter(&c03Conf.scanRange)
	prog, cerr := c03Compile(c03Conf.vpnMode, snap, text)
	verifAssert(cerr == nil, "libpcap rejects the filter expression")
	if cerr != nil {
		return
	}
	sm, ok := c03Conf.scanMethod.(*tcp.ScanMethod)
	verifAssert(ok, "the SYN command does not use the TCP scan method")
	if !ok {
		return
	}
	// the probes of this scan carry SYN and nothing else
	{
		pr := *c03Range
		pr.DstSubnet = &net.IPNet{IP: net.IPv4(192, 168, 0, 7).To4(), Mask: net.CIDRMask(32, 32)}
		pr.Ports = []*scan.PortRange{{StartPort: 8443, EndPort: 8443}}
		pr.SrcIP, pr.SrcMAC = net.IPv4(192, 168, 0, 3).To4(), net.HardwareAddr{0, 1, 2, 3, 4, 5}
		pctx, pcancel := context.WithCancel(context.Background())
		np := 0
		for p := range sm.Packets(pctx, &pr) {
			np++
			verifAssert(p.Err == nil && p.Buf != nil, "probe could not be built")
			if p.Err == nil && p.Buf != nil {
				if fb := p.Buf.Bytes(); len(fb) >= 54 {
					verifAssert(fb[23] == 6 && fb[33] == 7 && int(fb[36])<<8|int(fb[37]) == 8443, "not a TCP probe to the target address and port")
					verifAssert(fb[47] == 0x02 && fb[46]&1 == 0, "the SYN scan's probe does not carry exactly SYN")
				} else {
					verifAssert(false, "probe shorter than its headers")
				}
			}
		}
		pcancel()
		verifAssert(np == 1, "a single-address single-port target does not yield exactly one probe")
	}
	b := ndBytes("F", n)
	b = b[:n:n]
	off, ihl := c03WFIPv4(b, false, 5)
	t := off + ihl*4
	verifAssume(b[off+9] == 6 && t+20 <= n && b[t+12]>>4 == 5)
	passB := c03RunBPF(prog, b)
	perr := sm.ProcessPacketData(b, nil)
	// the record travels through the real result channel
	var rec *tcp.ScanResult
	verifYield()
	select {
	case r := <-sm.Results():
		rec = r.(*tcp.ScanResult)
	default:
	}
	src := b[off+12 : off+16]
	sport := uint16(b[t])<<8 | uint16(b[t+1])
	shape := src[0] == 192 && src[1] == 168 && src[2] == 0 && (sport == 22 || (sport >= 80 && sport <= 90)) && b[t+13] == 0x12
	if shape {
		verifCover("reply-shaped")
		verifAssert(passB && perr == nil && rec != nil, "a SYN+ACK from a scanned host and port is not reported")
	} else {
		verifAssert(!(passB && rec != nil), "a frame that is not a SYN+ACK from a scanned host and port is reported")
	}
	if rec != nil {
		verifAssert(rec.IP == net.IP(src).String() && rec.Port == sport && rec.ScanType == tcp.SYNScanType && rec.Flags == "", "record does not carry the frame's source address and port")
	}
}
