package command

import (
	"context"
	"net"

	"github.com/v-byte-cpu/sx/pkg/scan"
	"github.com/v-byte-cpu/sx/pkg/scan/tcp"
)

// ---- wiring extraction of the SYN scan command ----

var c03Conf *packetScanConfig

func verifSeam_startPortScanEngine(ctx context.Context, conf *packetScanConfig) error {
	c03Conf = conf
	return nil
}

var c03Range *scan.Range

func verifSeam_synParseOptions(o *tcpSYNCmdOpts, scanName string, args []string) error {
	o.scanRange = c03Range
	o.vpnMode = false
	return nil
}

// VerifH_C03_synWiring: the SYN command's own wiring (startScan up to the engine start):
// which filter function, processor filter, flag printer and target range reach the engine,
// then the same composition check as VerifH_C03_tcp on frames of LEN bytes.
func VerifH_C03_synWiring() {
	n := verifParam("LEN", 54)
	c03Range = &scan.Range{
		DstSubnet: &net.IPNet{IP: net.IPv4(192, 168, 0, 0).To4(), Mask: net.CIDRMask(24, 32)},
		Ports:     []*scan.PortRange{{StartPort: 22, EndPort: 22}, {StartPort: 80, EndPort: 90}},
	}
	c03Conf = nil
	ctx, cancel := context.WithCancel(context.Background())
	defer cancel()
	err := newTCPSYNCmdOpts(tcpCmdOpts{}).startScan(ctx, nil)
	verifAssert(err == nil && c03Conf != nil, "the SYN command did not reach the engine start")
	if c03Conf == nil {
		return
	}
	verifAssert(c03Conf.scanRange.DstSubnet == c03Range.DstSubnet && len(c03Conf.scanRange.Ports) == 2, "the target range handed to the engine is not the parsed one")
	text, snap := c03Conf.bpfFilter(&c03Conf.scanRange)
	prog, cerr := c03Compile(c03Conf.vpnMode, snap, text)
	verifAssert(cerr == nil, "libpcap rejects the filter expression")
	if cerr != nil {
		return
	}
	sm, ok := c03Conf.scanMethod.(*tcp.ScanMethod)
	verifAssert(ok, "the SYN command does not use the TCP scan method")
	if !ok {
		return
	}
	b := ndBytes("F", n)
	b = b[:n:n]
	off, ihl := c03WFIPv4(b, false, 5)
	t := off + ihl*4
	verifAssume(b[off+9] == 6 && t+20 <= n && b[t+12]>>4 == 5)
	passB := c03RunBPF(prog, b)
	perr := sm.ProcessPacketData(b, nil)
	// the record travels through the real result channel
	var rec *tcp.ScanResult
	verifYield()
	select {
	case r := <-sm.Results():
		rec = r.(*tcp.ScanResult)
	default:
	}
	src := b[off+12 : off+16]
	sport := uint16(b[t])<<8 | uint16(b[t+1])
	shape := src[0] == 192 && src[1] == 168 && src[2] == 0 && (sport == 22 || (sport >= 80 && sport <= 90)) && b[t+13] == 0x12
	if shape {
		verifCover("reply-shaped")
		verifAssert(passB && perr == nil && rec != nil, "a SYN+ACK from a scanned host and port is not reported")
	} else {
		verifAssert(!(passB && rec != nil), "a frame that is not a SYN+ACK from a scanned host and port is reported")
	}
	if rec != nil {
		verifAssert(rec.IP == net.IP(src).String() && rec.Port == sport && rec.ScanType == tcp.SYNScanType && rec.Flags == "", "record does not carry the frame's source address and port")
	}
}
