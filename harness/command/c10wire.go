package command

import (
	"context"
	"time"

	"github.com/v-byte-cpu/sx/pkg/scan"
	"github.com/v-byte-cpu/sx/pkg/scan/docker"
	"github.com/v-byte-cpu/sx/pkg/scan/elastic"
)

var c10Scanner scan.Scanner

func verifSeam_captureElastic(o *elasticCmdOpts, ctx context.Context, s scan.Scanner) *scan.GenericEngine {
	c10Scanner = s
	return nil
}

func verifSeam_captureDocker(o *dockerCmdOpts, ctx context.Context, s scan.Scanner) *scan.GenericEngine {
	c10Scanner = s
	return nil
}

// VerifH_C10_wire: the elastic and docker commands build their scanner from --timeout and --proto: for
// every timeout value and both schemes the probe's per-request timeout and scheme are the ones given;
// any other --proto value is refused by the option parser.
func VerifH_C10_wire() {
	t := time.Duration(ndU64("timeout"))
	https := ndBool("https")
	proto := "http"
	if https {
		proto = "https"
	}
	c10Scanner = nil
	if verifParam("CMD", 0) == 0 {
		o := &elasticCmdOpts{timeout: t, proto: proto}
		o.workers = 1
		verifAssert(o.parseRawOptions() == nil, "valid --proto refused")
		_ = o.newElasticScanEngine(context.Background())
		s, ok := c10Scanner.(*elastic.Scanner)
		verifAssert(ok && s != nil, "the elastic command does not run the Elasticsearch scanner")
		if ok && s != nil {
			p1, p2, dt := elastic.VerifConfig(s)
			verifAssert(p1 == proto && p2 == proto, "--proto does not reach the probe")
			verifAssert(dt == t, "--timeout does not reach the request timeout of the probe")
		}
		bad := &elasticCmdOpts{proto: "ftp"}
		bad.workers = 1
		verifAssert(bad.parseRawOptions() != nil, "a scheme other than http/https accepted")
	} else {
		o := &dockerCmdOpts{timeout: t, proto: proto}
		o.workers = 1
		verifAssert(o.parseRawOptions() == nil, "valid --proto refused")
		_ = o.newDockerScanEngine(context.Background())
		s, ok := c10Scanner.(*docker.Scanner)
		verifAssert(ok && s != nil, "the docker command does not run the Docker scanner")
		if ok && s != nil {
			p, dt := docker.VerifConfig(s)
			verifAssert(p == proto, "--proto does not reach the probe")
			verifAssert(dt == t, "--timeout does not reach the request timeout of the probe")
		}
		bad := &dockerCmdOpts{proto: "ftp"}
		bad.workers = 1
		verifAssert(bad.parseRawOptions() != nil, "a scheme other than http/https accepted")
	}
	verifCover("done")
}
