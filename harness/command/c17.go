package command

import (
	"net"

	"github.com/v-byte-cpu/sx/pkg/ip"
	"github.com/vishvananda/netlink"
)

func c17Same(a, b []byte) bool {
	if len(a) != len(b) {
		return false
	}
	ok := true
	for i := range a {
		ok = verifAnd(ok, a[i] == b[i])
	}
	return ok
}

// VerifH_C17_scanRange: a host with two interfaces (one address each: IPv4 /24, or IPv6), hardware
// address present or absent, two routes (default or not, any metric, either link), any /24 target,
// any combination of --iface / --srcip / --srcmac.
func VerifH_C17_scanRange() {
	var ifs [2]ip.VerifIface
	var a4 [2][]byte
	var isV4 [2]bool
	var macs [2][]byte
	for k := 0; k < 2; k++ {
		ifs[k].Iface = net.Interface{Index: k + 1, Name: []string{"eth0", "tun1"}[k]}
		macs[k] = ndBytes("mac", 6)
		if ndBool("hasMAC") {
			ifs[k].Iface.HardwareAddr = macs[k]
		}
		a4[k] = ndBytes("addr", 4)
		isV4[k] = ndBool("addrIsIPv4")
		if isV4[k] {
			aip := net.IP(a4[k])
			if verifParam("ADDR16", 1) == 1 { // package net reports IPv4 interface addresses in 16-byte form
				aip = net.IPv4(a4[k][0], a4[k][1], a4[k][2], a4[k][3])
			}
			ifs[k].Addrs = []net.Addr{&net.IPNet{IP: aip, Mask: net.CIDRMask(verifParam("IFP", 24), 32)}}
		} else {
			ifs[k].Addrs = []net.Addr{&net.IPNet{IP: net.ParseIP("fe80::1"), Mask: net.CIDRMask(64, 128)}}
		}
	}
	// SECOND=1: the first interface carries a second IPv4 address (another network)
	var b4 []byte
	if verifParam("SECOND", 0) == 1 {
		b4 = ndBytes("addr2", 4)
		bip := net.IP(b4)
		if verifParam("ADDR16", 1) == 1 {
			bip = net.IPv4(b4[0], b4[1], b4[2], b4[3])
		}
		ifs[0].Addrs = append(ifs[0].Addrs, &net.IPNet{IP: bip, Mask: net.CIDRMask(verifParam("IFP", 24), 32)})
	}
	ip.VerifHost.Ifaces = ifs[:]
	var routes []netlink.Route
	var def [2]bool
	var metric [2]int
	var link [2]int
	for k := 0; k < 2; k++ {
		def[k] = ndBool("routeIsDefault")
		metric[k] = int(ndU8("metric"))
		link[k] = 1 + int(verifConcretize(uint64(ndU8("link")&1)))
		rt := netlink.Route{LinkIndex: link[k], Priority: metric[k]}
		if verifParam("GWS", 3)>>uint(k)&1 == 1 { // a device route ("default dev tun0") has no gateway
			rt.Gw = net.IPv4(10, 9, 9, byte(k+1))
		}
		if !def[k] {
			rt.Dst = &net.IPNet{IP: net.IPv4(172, 16, 0, 0).To4(), Mask: net.CIDRMask(12, 32)}
		}
		routes = append(routes, rt)
	}
	ip.VerifHost.Routes = routes
	// the host also has an IPv6 default route of the best metric, through the second interface:
	// it must play no part in choosing the interface of an IPv4 scan
	ip.VerifHost.Routes6 = []netlink.Route{{LinkIndex: 2, Priority: 0, Gw: net.ParseIP("fe80::1")}}
	tb := ndBytes("target", 4)
	tmask := net.CIDRMask(verifParam("TP", 24), 32)
	target := &net.IPNet{IP: net.IP(tb).Mask(tmask), Mask: tmask}
	ifmask := net.CIDRMask(verifParam("IFP", 24), 32)
	o := &packetScanCmdOpts{}
	forced := -1
	if ndBool("ifaceFlag") {
		forced = int(verifConcretize(uint64(ndU8("ifaceChoice") & 1)))
		c := ifs[forced].Iface
		o.iface = &c
	}
	srcipFlag, srcmacFlag := ndBool("srcipFlag"), ndBool("srcmacFlag")
	if fl := verifParam("FLAGS", -1); fl >= 0 {
		// the override combination of this run (one process per combination)
		verifAssume((forced >= 0) == (fl&1 != 0) && srcipFlag == (fl&2 != 0) && srcmacFlag == (fl&4 != 0))
	}
	oip, omac := ndBytes("srcip", 4), ndBytes("srcmac", 6)
	if srcipFlag {
		o.srcIP = net.IP(oip)
		if verifParam("SRC16", 1) == 1 { // the flag parser (net.ParseIP) yields the 16-byte form
			o.srcIP = net.IPv4(oip[0], oip[1], oip[2], oip[3])
		}
	}
	if srcmacFlag {
		o.srcMAC = omac
	}
	r, err := o.getScanRange(target)

	// ---- reference selection, clause by clause ----
	// attached: the interface's network contains the base address of the target
	onTarget := func(a []byte) bool {
		ok := true
		for i := 0; i < 4; i++ {
			ok = verifAnd(ok, a[i]&ifmask[i] == tb[i]&tmask[i]&ifmask[i])
		}
		return ok
	}
	// attachedAddr: the interface's own address on the target subnet (first one in address order), or nil
	attachedAddr := func(k int) []byte {
		if isV4[k] && onTarget(a4[k]) {
			return a4[k]
		}
		if k == 0 && b4 != nil && onTarget(b4) {
			return b4
		}
		return nil
	}
	attached := func(k int) bool { return attachedAddr(k) != nil }
	chosen := -1
	var wantIP []byte
	switch {
	case forced >= 0:
		chosen = forced
		if aa := attachedAddr(forced); aa != nil {
			wantIP = aa // its own address on the target subnet
		} else if isV4[forced] {
			wantIP = a4[forced] // else its first address
		}
	case attached(0):
		chosen, wantIP = 0, attachedAddr(0)
	case attached(1):
		chosen, wantIP = 1, attachedAddr(1)
	default:
		best := -1
		for k := 0; k < 2; k++ {
			if def[k] && (best < 0 || metric[k] < metric[best]) {
				best = k
			}
		}
		if best >= 0 {
			chosen = link[best] - 1
			if isV4[chosen] {
				wantIP = a4[chosen]
			}
		}
	}
	if srcipFlag {
		wantIP = oip
	}
	if err != nil {
		verifCover("refused")
		verifAssert(chosen < 0 || wantIP == nil, "a usable interface and IPv4 source address exist, yet the scan was refused")
		return
	}
	verifCover("accepted")
	verifAssert(r != nil && r.Interface != nil, "no error and no interface")
	if r == nil || r.Interface == nil {
		return
	}
	verifAssert(chosen >= 0, "an interface was chosen although none is attached, given or reachable by a default route")
	if chosen < 0 {
		return
	}
	verifAssert(r.Interface.Index == chosen+1, "probes would leave through the wrong interface")
	verifAssert(len(r.SrcIP) == 4, "source address is not a 4-byte IPv4 address (empty, or a form the frame builders write as 0.0.0.0)")
	if wantIP != nil && len(r.SrcIP) == 4 {
		verifAssert(c17Same(r.SrcIP, wantIP), "source address is not the chosen interface's own address (or the --srcip override)")
	}
	wantMAC := ifs[chosen].Iface.HardwareAddr
	if srcmacFlag {
		wantMAC = omac
	}
	verifAssert(c17Same(r.SrcMAC, wantMAC), "source MAC is not the chosen interface's MAC (or the --srcmac override)")
	verifAssert((r.SrcMAC == nil) == (wantMAC == nil), "raw-IP (VPN) framing not selected exactly when there is no hardware address")
}
