package command

import (
	"context"
	"errors"
	"io"
	"time"

	"github.com/google/gopacket"
	"github.com/v-byte-cpu/sx/pkg/packet"
	"github.com/v-byte-cpu/sx/pkg/scan"
)

// ---- the real packet engine (generator stages, sender, receiver, error merger) behind the
// real startScanEngine, with stub I/O; cancellation is injected at the k-th visible I/O step ----

type c12Filler struct{ fail []bool }

func (f *c12Filler) Fill(buf gopacket.SerializeBuffer, r *scan.Request) error {
	c12Step()
	if int(r.DstPort) < len(f.fail) && f.fail[r.DstPort] {
		return errors.New("cannot build frame")
	}
	b, err := buf.PrependBytes(2)
	if err != nil {
		return err
	}
	b[0], b[1] = 0xAB, byte(r.DstPort)
	return nil
}

type c12RW struct {
	writes    int
	failWrite []bool
	readErrs  int
}

func (w *c12RW) WritePacketData(p []byte) error {
	c12Step()
	k := w.writes
	w.writes++
	if k < len(w.failWrite) && w.failWrite[k] {
		return errors.New("write failed")
	}
	return nil
}

func (w *c12RW) ReadPacketData() ([]byte, *gopacket.CaptureInfo, error) {
	c12Step()
	time.Sleep(10 * time.Millisecond) // an idle wire: the read times out
	w.readErrs++
	if w.readErrs > 50 {
		return nil, nil, io.EOF
	}
	return []byte{1, 2, 3}, &gopacket.CaptureInfo{}, nil
}

var (
	c12Steps    int
	c12CancelAt int
	c12Cancel   func()
)

func c12Step() {
	c12Steps++
	if c12Steps == c12CancelAt && c12Cancel != nil {
		c12Cancel()
	}
}

type c12Method struct {
	scan.PacketSource
	results scan.ResultChan
	procErr bool
	n       int
}

func (m *c12Method) ProcessPacketData(data []byte, ci *gopacket.CaptureInfo) error {
	m.n++
	if m.procErr {
		return errors.New("cannot decode")
	}
	m.results.Put(&c16Result{id: 100 + m.n})
	return nil
}
func (m *c12Method) Results() <-chan scan.Result { return m.results.Chan() }

type c12Gen struct{ n int }

func (g *c12Gen) GenerateRequests(ctx context.Context, r *scan.Range) (<-chan *scan.Request, error) {
	out := make(chan *scan.Request)
	go func() {
		defer close(out)
		for i := 0; i < g.n; i++ {
			select {
			case out <- &scan.Request{DstPort: uint16(i)}:
			case <-ctx.Done():
				return
			}
		}
	}()
	return out, nil
}

// VerifH_C12_packetCancel: K probes through the real packet engine and startScanEngine; builds,
// writes and frame processing may fail; the scan is cancelled when visible I/O step number C
// happens (any step of the run, or never); every select choice, pre-emption bound from the spec.
func VerifH_C12_packetCancel() {
	verifNow()
	K := verifParam("K", 2)
	ctx, cancel := context.WithCancel(context.Background())
	defer cancel()
	fl := &c12Filler{}
	rw := &c12RW{}
	for i := 0; i < K; i++ {
		fl.fail = append(fl.fail, ndBool("buildFails"))
		rw.failWrite = append(rw.failWrite, ndBool("writeFails"))
	}
	m := &c12Method{results: scan.NewResultChan(ctx, 1000), procErr: ndBool("processingFails")}
	m.PacketSource = scan.NewPacketSource(&c12Gen{n: K}, scan.NewPacketMultiGenerator(fl, verifParam("N", 2)))
	c12Steps = 0
	ca := ndU8("cancelAtStep")
	verifAssume(int(ca) <= 3*K+4)
	c12CancelAt = int(verifConcretize(uint64(ca))) // 0: never
	c12Cancel = cancel
	lg := &c16Logger{perItem: c16Pick("consumer", 0, 5*time.Millisecond)}
	var rwi packet.ReadWriter = rw
	engine := scan.SetupPacketEngine(rwi, m)
	conf := newEngineConfig(withLogger(lg), withScanRange(&scan.Range{}), withExitDelay(30*time.Millisecond))
	start := verifNow()
	err := startScanEngine(ctx, engine, conf)
	end := verifNow()
	verifAssert(err == nil, "scan call failed")
	// the whole run is short: K probes, then the exit delay; after a cancel it must end at once
	verifAssert(end-start <= int64(time.Second), "the scan call did not return in bounded time")
	for i, id := range lg.got {
		verifAssert(id == 101+i, "records logged out of order, twice or incomplete")
	}
	if c12CancelAt == 0 {
		verifCover("ran-to-completion")
	} else {
		verifCover("cancelled")
	}
}
