package command

import (
	"context"
	"io"
	"net"
	"strings"

	"github.com/v-byte-cpu/sx/pkg/scan"
)

var c02Corpus = []string{
	"10.0.0.0/30\n10.0.0.0/24\n",
	"10.0.0.0/24\n10.0.0.0/30\n",
	"192.168.4.0\n192.168.4.0/22\n# comment\n\n  172.16.0.0/12  # trailing comment\n",
	"1.2.3.4\n1.2.3.5\n8.8.8.8\n",
	"0.0.0.0/0\n",
	"",
	"10.1.0.0/16\n10.1.128.0/17\n10.2.0.0/15\n224.0.0.0/4\n",
	"10.0.0.5\n10.0.0.0/24\n10.0.0.5\n",
	"255.255.255.255\n128.0.0.0/1\n127.0.0.1/8\n",
}

type c02Net struct{ base, mask uint32 }

// c02RefParse reads an exclusion file independently: '#' starts a comment, blanks are
// trimmed, a line is a dotted quad with an optional /prefix.
func c02RefParse(text string) []c02Net {
	var out []c02Net
	for _, line := range strings.Split(text, "\n") {
		if i := strings.IndexByte(line, '#'); i >= 0 {
			line = line[:i]
		}
		line = strings.TrimSpace(line)
		if line == "" {
			continue
		}
		pfx := 32
		if i := strings.IndexByte(line, '/'); i >= 0 {
			pfx = 0
			for _, c := range line[i+1:] {
				pfx = pfx*10 + int(c-'0')
			}
			line = line[:i]
		}
		var a uint32
		v := 0
		for _, c := range line + "." {
			if c == '.' {
				a = a<<8 | uint32(v)
				v = 0
			} else {
				v = v*10 + int(c-'0')
			}
		}
		var m uint32
		if pfx > 0 {
			m = ^uint32(0) << uint(32-pfx)
		}
		out = append(out, c02Net{a & m, m})
	}
	return out
}

type c02Gen struct{ rq *scan.Request }

func (g *c02Gen) GenerateRequests(ctx context.Context, r *scan.Range) (<-chan *scan.Request, error) {
	out := make(chan *scan.Request, 1)
	out <- g.rq
	close(out)
	return out, nil
}

var c02Pool = []string{
	"10.0.0.0/8", "10.0.0.0/16", "10.0.0.0/24", "10.0.0.0/30", "10.0.0.5", "10.0.0.4/31", "10.0.0.0",
	"10.0.1.0/24", "10.128.0.0/9", "0.0.0.0/0", "11.0.0.0/8", "255.255.255.255",
	"  10.0.0.0/24  # lab", "# 10.0.0.0/8", "",
}

// c02Text is the exclusion file of this run: corpus file FILE, or (FILE = -1) NL lines each
// chosen by the solver from c02Pool - every order, repetition and nesting of those entries.
func c02Text() string {
	f := verifParam("FILE", 0)
	if f >= 0 {
		return c02Corpus[f]
	}
	if f == -2 {
		// two entries and one comment line of LONG bytes at a solver-chosen position
		lines := []string{"10.0.0.0/24", "11.0.0.0/8"}
		long := "#" + strings.Repeat("x", verifParam("LONG", 65536))
		pos := ndU8("longLineAt")
		verifAssume(pos <= 2)
		k := int(verifConcretize(uint64(pos)))
		lines = append(lines[:k], append([]string{long}, lines[k:]...)...)
		return strings.Join(lines, "\n") + "\n"
	}
	text := ""
	for i := 0; i < verifParam("NL", 2); i++ {
		k := ndU8("line")
		verifAssume(int(k) < len(c02Pool))
		text += c02Pool[verifConcretize(uint64(k))] + "\n"
	}
	return text
}

// VerifH_C02_exclude: the real parseExcludeFile + cidranger trie + exclusion filter on corpus
// file FILE: for every IPv4 address (4- or 16-byte spelling) the request is dropped iff some
// line of the file covers the address.
func VerifH_C02_exclude() {
	text := c02Text()
	ex, err := parseExcludeFile(func() (io.ReadCloser, error) { return io.NopCloser(strings.NewReader(text)), nil })
	if err != nil && verifParam("FILE", 0) == -2 {
		verifCover("rejected") // refusing an over-long line is within the property; truncating the list silently is not
		return
	}
	verifAssert(err == nil && ex != nil, "well-formed exclusion file refused")
	if err != nil {
		return
	}
	a := ndBytes("addr", 4)
	a32 := uint32(a[0])<<24 | uint32(a[1])<<16 | uint32(a[2])<<8 | uint32(a[3])
	ip := net.IP(a)
	if ndBool("spell16") {
		ip = net.IPv4(a[0], a[1], a[2], a[3])
	}
	covered := false
	for _, n := range c02RefParse(text) {
		covered = verifOr(covered, a32&n.mask == n.base)
	}
	rq := &scan.Request{DstIP: ip, DstPort: 80}
	ch, gerr := scan.NewFilterIPRequestGenerator(&c02Gen{rq}, ex).GenerateRequests(context.Background(), &scan.Range{})
	verifAssert(gerr == nil, "filter refused a working source")
	if gerr != nil {
		return
	}
	n := 0
	for got := range ch {
		n++
		verifAssert(got == rq && got.Err == nil, "filter altered a forwarded request")
	}
	if n == 1 {
		verifCover("forwarded")
	} else {
		verifCover("dropped")
	}
	verifAssert(n <= 1, "filter duplicated a request")
	verifAssert((n == 0) == covered, "request dropped although no exclusion line covers it, or forwarded although one does")
}

type c02GenN struct{ rqs []*scan.Request }

func (g *c02GenN) GenerateRequests(ctx context.Context, r *scan.Range) (<-chan *scan.Request, error) {
	out := make(chan *scan.Request, len(g.rqs))
	for _, rq := range g.rqs {
		out <- rq
	}
	close(out)
	return out, nil
}

// VerifH_C02_excludeSeq: K requests in a row through the exclusion filter (same file choices as
// VerifH_C02_exclude), each with a solver-chosen address in 4- or 16-byte spelling: every one is
// judged on its own address - forwarded, in order and unchanged, iff no line covers it.
func VerifH_C02_excludeSeq() {
	text := c02Text()
	ex, err := parseExcludeFile(func() (io.ReadCloser, error) { return io.NopCloser(strings.NewReader(text)), nil })
	verifAssert(err == nil && ex != nil, "well-formed exclusion file refused")
	if err != nil {
		return
	}
	nets := c02RefParse(text)
	K := verifParam("K", 2)
	var rqs []*scan.Request
	var covered []bool
	for i := 0; i < K; i++ {
		a := ndBytes("addr", 4)
		a32 := uint32(a[0])<<24 | uint32(a[1])<<16 | uint32(a[2])<<8 | uint32(a[3])
		ip := net.IP(a)
		if ndBool("spell16") {
			ip = net.IPv4(a[0], a[1], a[2], a[3])
		}
		cov := false
		for _, n := range nets {
			cov = verifOr(cov, a32&n.mask == n.base)
		}
		rqs = append(rqs, &scan.Request{DstIP: ip, DstPort: uint16(80 + i)})
		covered = append(covered, cov)
	}
	ch, gerr := scan.NewFilterIPRequestGenerator(&c02GenN{rqs}, ex).GenerateRequests(context.Background(), &scan.Range{})
	verifAssert(gerr == nil, "filter refused a working source")
	if gerr != nil {
		return
	}
	var got []*scan.Request
	for rq := range ch {
		got = append(got, rq)
	}
	j := 0
	for i, rq := range rqs {
		fwd := j < len(got) && got[j] == rq
		if fwd {
			j++
			verifAssert(rq.Err == nil && int(rq.DstPort) == 80+i, "filter altered a forwarded request")
		}
		verifAssert(fwd == !covered[i], "request dropped although no exclusion line covers it, or forwarded although one does (verdict of a neighbour?)")
	}
	verifAssert(j == len(got), "filter duplicated or invented a request")
	verifCover("done")
}
