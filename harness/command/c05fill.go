package command

import (
	"net"

	"github.com/google/gopacket"
	"github.com/v-byte-cpu/sx/pkg/scan"
	"github.com/v-byte-cpu/sx/pkg/scan/arp"
	"github.com/v-byte-cpu/sx/pkg/scan/icmp"
	"github.com/v-byte-cpu/sx/pkg/scan/tcp"
	"github.com/v-byte-cpu/sx/pkg/scan/udp"
)

type c05Filler interface {
	Fill(packet gopacket.SerializeBuffer, r *scan.Request) error
}

// VerifH_C05_sharedFiller: the commands hand ONE filler to all generator workers.  Two workers
// fill a frame each for different requests at the same time (every interleaving with the
// pre-emption bound, every heap store a pre-emption point): each frame carries the destination
// MAC, address and port of its own request.  PROTO 0 icmp, 1 udp, 2 tcp, 3 arp.
func VerifH_C05_sharedFiller() {
	var f c05Filler
	proto := verifParam("PROTO", 0)
	switch proto {
	case 0:
		f = icmp.NewPacketFiller()
	case 1:
		f = udp.NewPacketFiller()
	case 2:
		f = tcp.NewPacketFiller()
	default:
		f = arp.NewPacketFiller()
	}
	src := net.IPv4(192, 168, 0, 3).To4()
	smac := net.HardwareAddr{0, 1, 2, 3, 4, 5}
	rq := []*scan.Request{
		{SrcIP: src, SrcMAC: smac, DstIP: net.IPv4(10, 0, 0, 1).To4(), DstMAC: net.HardwareAddr{0xa, 0xa, 0xa, 0xa, 0xa, 1}, DstPort: 1001},
		{SrcIP: src, SrcMAC: smac, DstIP: net.IPv4(10, 0, 0, 2).To4(), DstMAC: net.HardwareAddr{0xb, 0xb, 0xb, 0xb, 0xb, 2}, DstPort: 2002},
	}
	out := make([][]byte, 2)
	errs := make([]error, 2)
	done := make(chan int, 2)
	for k := 0; k < 2; k++ {
		go func(k int) {
			buf := gopacket.NewSerializeBuffer()
			errs[k] = f.Fill(buf, rq[k])
			out[k] = append([]byte{}, buf.Bytes()...)
			done <- k
		}(k)
	}
	<-done
	<-done
	for k := 0; k < 2; k++ {
		b := out[k]
		verifAssert(errs[k] == nil && len(b) >= 42, "probe could not be built")
		if errs[k] != nil || len(b) < 42 {
			continue
		}
		if proto == 3 {
			verifAssert(b[38] == 10 && b[41] == byte(k+1), "ARP request asks for another request's address")
			continue
		}
		verifAssert(b[0] == rq[k].DstMAC[0] && b[5] == rq[k].DstMAC[5], "frame carries another request's destination MAC")
		verifAssert(b[30] == 10 && b[33] == byte(k+1), "frame carries another request's destination address")
		if proto == 1 || proto == 2 {
			port := int(b[36])<<8 | int(b[37])
			verifAssert(port == int(rq[k].DstPort), "frame carries another request's destination port")
		}
	}
	verifCover("done")
}
