package command

import (
	"context"
	"time"

	"github.com/v-byte-cpu/sx/pkg/scan"
	"github.com/v-byte-cpu/sx/pkg/scan/socks5"
)

var c09Scanner scan.Scanner

func verifSeam_captureScanner(o *socksCmdOpts, ctx context.Context, s scan.Scanner) *scan.GenericEngine {
	c09Scanner = s
	return nil
}

// VerifH_C09_wireTimeout: the socks command builds its scanner from --timeout: for every value
// the connect time-out AND the data time-out of the probe are that value (the time bound of the
// property is stated in terms of both).
func VerifH_C09_wireTimeout() {
	t := time.Duration(ndU64("timeout"))
	o := &socksCmdOpts{timeout: t}
	c09Scanner = nil
	_ = o.newSOCKSScanEngine(context.Background())
	s, ok := c09Scanner.(*socks5.Scanner)
	verifAssert(ok && s != nil, "the socks command does not run the SOCKS5 scanner")
	if !ok || s == nil {
		return
	}
	dial, data := socks5.VerifTimeouts(s)
	verifAssert(dial == t, "--timeout does not reach the connect time-out of the probe")
	verifAssert(data == t, "--timeout does not reach the data time-out of the probe")
	verifCover("done")
}
