package command

import (
	"context"
	"io"
	"time"

	"github.com/v-byte-cpu/sx/command/log"
	"github.com/v-byte-cpu/sx/pkg/scan"
)

// ---- wiring extraction of the application-scan commands (socks, docker, elastic) ----

var (
	gwEngine scan.EngineResulter
	gwConf   *engineConfig
)

func verifSeam_wireStartScan(ctx context.Context, engine scan.EngineResulter, conf *engineConfig) error {
	gwEngine, gwConf = engine, conf
	return nil
}

func gwRaw(o *genericScanCmdOpts) error {
	wireRawCalls++
	o.rateCount, o.rateWindow, o.exitDelay = wireRate, wireWindow, wireDelay
	o.workers = 3
	o.portRanges = []*scan.PortRange{{StartPort: 1080, EndPort: 1081}}
	return nil
}

func verifSeam_rawSocks(o *socksCmdOpts) error     { return gwRaw(&o.genericScanCmdOpts) }
func verifSeam_rawDocker(o *dockerCmdOpts) error   { return gwRaw(&o.genericScanCmdOpts) }
func verifSeam_rawElastic(o *elasticCmdOpts) error { return gwRaw(&o.genericScanCmdOpts) }

func gwLogger() (log.Logger, error) { return wireLogger, nil }

func verifSeam_logSocks(o *socksCmdOpts, name string, w io.Writer) (log.Logger, error) {
	return gwLogger()
}
func verifSeam_logDocker(o *dockerCmdOpts, name string, w io.Writer) (log.Logger, error) {
	return gwLogger()
}
func verifSeam_logElastic(o *elasticCmdOpts, name string, w io.Writer) (log.Logger, error) {
	return gwLogger()
}

// VerifH_C08_wireGeneric: the socks (0), docker (1) and elastic (2) commands up to the engine start.
func VerifH_C08_wireGeneric() {
	c15Reset()
	wireReset()
	gwEngine, gwConf = nil, nil
	var err error
	args := []string{"10.0.0.0/30"}
	switch verifParam("CMD", 0) {
	case 0:
		c := newSocksCmd()
		err = c.cmd.RunE(c.cmd, args)
	case 1:
		c := newDockerCmd()
		err = c.cmd.RunE(c.cmd, args)
	case 2:
		c := newElasticCmd()
		err = c.cmd.RunE(c.cmd, args)
	}
	verifAssert(err == nil && gwConf != nil && gwEngine != nil, "the command did not reach the engine start")
	if gwConf == nil {
		return
	}
	verifAssert(wireRawCalls == 1, "raw options not parsed exactly once")
	verifAssert(gwConf.exitDelay == wireDelay, "--exit-delay does not reach the engine configuration")
	r := gwConf.scanRange
	verifAssert(r.DstSubnet != nil && r.DstSubnet.String() == "10.0.0.0/30" && len(r.Ports) == 2-1, "the parsed target and ports do not reach the engine")
	_, generic := gwEngine.(*scan.GenericEngine)
	verifAssert(generic, "application scans must run on the generic engine")
	if wireRate > 0 {
		verifCover("limited")
		verifAssert(len(c15News) == 1 && c15News[0].rate == wireRate && c15News[0].window == wireWindow, "the parsed --rate does not reach the limiter of the scan engine")
	} else {
		verifCover("unlimited")
		verifAssert(len(c15News) == 0, "a limiter was created although no rate limit was requested")
	}
	_ = time.Second
}
