package log

// VerifInner exposes the logger a UniqueLogger writes to (support file for C14.wireARP).
func VerifInner(l *UniqueLogger) Logger { return l.logger }
