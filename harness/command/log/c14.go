package log

import (
	"context"
	"errors"
	"time"

	"github.com/v-byte-cpu/sx/pkg/scan"
	"go.uber.org/zap"
)

type c14Result struct {
	id   string
	data []byte
	fail bool
}

var errC14 = errors.New("cannot marshal")

func (r *c14Result) String() string { return r.id }
func (r *c14Result) ID() string     { return r.id }
func (r *c14Result) MarshalJSON() ([]byte, error) {
	if r.fail {
		return nil, errC14
	}
	return r.data, nil
}

type c14Writer struct {
	writes [][]byte
}

func (w *c14Writer) Write(p []byte) (int, error) {
	w.writes = append(w.writes, append([]byte{}, p...))
	return len(p), nil
}

// VerifH_C14_logResults: K results with solver-chosen encodings (L bytes, no raw newline) or a
// marshal failure, through the real LogResults + JSONResultWriter: one complete line per
// result, in channel order, nothing for a failed marshal.
func VerifH_C14_logResults() {
	K, L := verifParam("K", 2), verifParam("L", 1)
	w := &c14Writer{}
	lg := &logger{zapl: zap.NewNop(), label: "t", w: w, rw: &JSONResultWriter{}, flushInterval: time.Second}
	in := make(chan scan.Result, K)
	var want [][]byte
	for i := 0; i < K; i++ {
		r := &c14Result{id: string(rune('a' + i))}
		if ndBool("marshalFails") {
			r.fail = true
		} else {
			r.data = ndBytes("data", L)
			for _, c := range r.data {
				verifAssume(c != '\n')
			}
			want = append(want, r.data)
		}
		in <- r
	}
	close(in)
	lg.LogResults(context.Background(), in)
	var out []byte
	for _, p := range w.writes {
		out = append(out, p...)
	}
	var exp []byte
	for _, d := range want {
		exp = append(exp, d...)
		exp = append(exp, '\n')
	}
	verifAssert(len(out) == len(exp), "output is not exactly one line per successfully encoded result")
	if len(out) == len(exp) {
		ok := true
		for i := range out {
			ok = verifAnd(ok, out[i] == exp[i])
		}
		verifAssert(ok, "a line differs from the result's encoding followed by a newline (merged, split, reordered or altered)")
	}
	for _, p := range w.writes {
		verifAssert(len(p) > 0 && p[len(p)-1] == '\n', "a write does not end at a record boundary (record split across writes)")
	}
	verifCover("done")
}

// VerifH_C14_unique: K results whose IDs are solver-chosen strings of L bytes, every equality
// pattern: the de-duplicating logger forwards exactly the first sighting of each ID, in order.
func VerifH_C14_unique() {
	K, L := verifParam("K", 3), verifParam("L", 1)
	// CAP: capacity of the result stream (the de-duplicator sizes its own buffer after it);
	// LATE: the output side starts reading only after the stream has backed up
	capIn := verifParam("CAP", K)
	in := make(chan scan.Result, capIn)
	var ids [][]byte
	var rs []scan.Result
	for i := 0; i < K; i++ {
		b := ndBytes("id", L)
		ids = append(ids, b)
		rs = append(rs, &c14Result{id: string(b), data: []byte{byte('0' + i)}})
	}
	go func() {
		for _, r := range rs {
			in <- r
		}
		close(in)
	}()
	ul := NewUniqueLogger(nil)
	out := ul.uniqResults(context.Background(), in)
	if verifParam("LATE", 0) == 1 {
		time.Sleep(time.Millisecond)
	}
	var got []byte
	for r := range out {
		got = append(got, r.(*c14Result).data[0])
	}
	var want []byte
	for i := 0; i < K; i++ {
		first := true
		for j := 0; j < i; j++ {
			same := true
			for k := 0; k < L; k++ {
				same = verifAnd(same, ids[i][k] == ids[j][k])
			}
			if same {
				first = false
			}
		}
		if first {
			want = append(want, byte('0'+i))
		}
	}
	verifAssert(string(got) == string(want), "de-duplication did not forward exactly the first sighting of every distinct host, in order")
	verifCover("done")
}
