package log

import (
	"context"
	"errors"
	"time"

	"github.com/v-byte-cpu/sx/pkg/scan"
	"go.uber.org/zap"
)

type c14Result struct {
	id   string
	data []byte
	fail bool
}

var errC14 = errors.New("cannot marshal")

func (r *c14Result) String() string { return r.id }
func (r *c14Result) ID() string     { return r.id }
func (r *c14Result) MarshalJSON() ([]byte, error) {
	if r.fail {
		return nil, errC14
	}
	return r.data, nil
}

type c14Writer struct {
	writes [][]byte
	calls  int
	failAt int // this Write call (1-based) fails once, transiently, writing nothing; 0: never
}

var errC14Write = errors.New("write: resource temporarily unavailable")

func (w *c14Writer) Write(p []byte) (int, error) {
	w.calls++
	if w.calls == w.failAt {
		return 0, errC14Write
	}
	w.writes = append(w.writes, append([]byte{}, p...))
	return len(p), nil
}

// VerifH_C14_logResults: K results with solver-chosen encodings (L bytes, no raw newline) or a
// marshal failure, through the real LogResults + JSONResultWriter: one complete line per
// result, in channel order, nothing for a failed marshal.
func VerifH_C14_logResults() {
	K, L := verifParam("K", 2), verifParam("L", 1)
	w := &c14Writer{}
	lg := &logger{zapl: zap.NewNop(), label: "t", w: w, rw: &JSONResultWriter{}, flushInterval: time.Second}
	in := make(chan scan.Result, K)
	var want [][]byte
	for i := 0; i < K; i++ {
		r := &c14Result{id: string(rune('a' + i))}
		if ndBool("marshalFails") {
			r.fail = true
		} else {
			r.data = ndBytes("data", L)
			for _, c := range r.data {
				verifAssume(c != '\n')
			}
			want = append(want, r.data)
		}
		in <- r
	}
	close(in)
	lg.LogResults(context.Background(), in)
	var out []byte
	for _, p := range w.writes {
		out = append(out, p...)
	}
	var exp []byte
	for _, d := range want {
		exp = append(exp, d...)
		exp = append(exp, '\n')
	}
	verifAssert(len(out) == len(exp), "output is not exactly one line per successfully encoded result")
	if len(out) == len(exp) {
		ok := true
		for i := range out {
			ok = verifAnd(ok, out[i] == exp[i])
		}
		verifAssert(ok, "a line differs from the result's encoding followed by a newline (merged, split, reordered or altered)")
	}
	for _, p := range w.writes {
		verifAssert(len(p) > 0 && p[len(p)-1] == '\n', "a write does not end at a record boundary (record split across writes)")
	}
	verifCover("done")
}

// VerifH_C14_unique: K results whose IDs are solver-chosen strings of L bytes, every equality
// pattern: the de-duplicating logger forwards exactly the first sighting of each ID, in order.
func VerifH_C14_unique() {
	K, L := verifParam("K", 3), verifParam("L", 1)
	// CAP: capacity of the result stream (the de-duplicator sizes its own buffer after it);
	// LATE: the output side starts reading only after the stream has backed up
	capIn := verifParam("CAP", K)
	in := make(chan scan.Result, capIn)
	var ids [][]byte
	var rs []scan.Result
	for i := 0; i < K; i++ {
		b := ndBytes("id", L)
		ids = append(ids, b)
		rs = append(rs, &c14Result{id: string(b), data: []byte{byte('0' + i)}})
	}
	go func() {
		for _, r := range rs {
			in <- r
		}
		close(in)
	}()
	ul := NewUniqueLogger(nil)
	out := ul.uniqResults(context.Background(), in)
	if verifParam("LATE", 0) == 1 {
		time.Sleep(time.Millisecond)
	}
	var got []byte
	for r := range out {
		got = append(got, r.(*c14Result).data[0])
	}
	var want []byte
	for i := 0; i < K; i++ {
		first := true
		for j := 0; j < i; j++ {
			same := true
			for k := 0; k < L; k++ {
				same = verifAnd(same, ids[i][k] == ids[j][k])
			}
			if same {
				first = false
			}
		}
		if first {
			want = append(want, byte('0'+i))
		}
	}
	verifAssert(string(got) == string(want), "de-duplication did not forward exactly the first sighting of every distinct host, in order")
	verifCover("done")
}

// VerifH_C14_writeFault: one transient failure of the output (the k-th write call, k chosen by the
// solver): at most the record being written is lost; every later result is still printed, whole
// and in order.
func VerifH_C14_writeFault() {
	K := verifParam("K", 3)
	w := &c14Writer{}
	f := ndU8("failAtWrite")
	verifAssume(int(f) <= K)
	w.failAt = int(verifConcretize(uint64(f)))
	lg := &logger{zapl: zap.NewNop(), label: "t", w: w, rw: &JSONResultWriter{}, flushInterval: time.Second}
	in := make(chan scan.Result, K)
	for i := 0; i < K; i++ {
		in <- &c14Result{id: string(rune('a' + i)), data: []byte{'{', byte('0' + i), '}'}}
	}
	close(in)
	lg.LogResults(context.Background(), in)
	var out []byte
	for _, p := range w.writes {
		out = append(out, p...)
	}
	// every record but at most one (the one that met the fault) is present, in order
	next, missing := 0, 0
	for i := 0; i < K; i++ {
		line := []byte{'{', byte('0' + i), '}', '\n'}
		if next+4 <= len(out) && string(out[next:next+4]) == string(line) {
			next += 4
		} else {
			missing++
		}
	}
	verifAssert(next == len(out), "output contains something that is not a complete record line")
	if w.failAt == 0 {
		verifAssert(missing == 0, "a result was not printed although the output never failed")
	} else {
		verifCover("fault")
		verifAssert(missing <= 1, "one transient write failure silenced more than the record being written")
	}
	verifCover("done")
}

// VerifH_C12_loggerCancel: the real logger reading the real result channel of a scan that is
// cancelled with Q results still queued: LogResults returns, nothing crashes, and whatever was
// printed are complete records of real results.
func VerifH_C12_loggerCancel() {
	Q := int(verifConcretize(uint64(ndU8("queued") % 3)))
	parent, cancel := context.WithCancel(context.Background())
	rc := scan.NewResultChan(parent, 10)
	for i := 0; i < Q; i++ {
		rc.Put(&c14Result{id: string(rune('a' + i)), data: []byte{'{', byte('0' + i), '}'}})
	}
	w := &c14Writer{}
	lg := &logger{zapl: zap.NewNop(), label: "t", w: w, rw: &JSONResultWriter{}, flushInterval: time.Second}
	ctx, cancel2 := context.WithCancel(parent)
	defer cancel2()
	done := make(chan struct{})
	go func() {
		defer close(done)
		lg.LogResults(ctx, rc.Chan())
	}()
	if ndBool("letItDrainFirst") {
		time.Sleep(time.Millisecond)
	}
	cancel() // Ctrl-C: the result channel is built on the same context and closes with it
	select {
	case <-done:
	case <-time.After(time.Second):
		verifAssert(false, "the logger did not return after cancellation")
	}
	for _, p := range w.writes {
		verifAssert(len(p) == 4 && p[0] == '{' && p[2] == '}' && p[3] == '\n', "a printed record is not a complete line of a real result")
	}
	verifAssert(len(w.writes) <= Q, "more records printed than results produced")
	verifCover("done")
}

// VerifH_C14_uniqueMany: N distinct hosts (more than two 65536-entry generations), then one of the
// first hosts again (solver-chosen among a few): it is not printed a second time.  Concrete IDs;
// what is explored is the position of the repeated host.
func VerifH_C14_uniqueMany() {
	N := verifParam("N", 140000)
	in := make(chan scan.Result, 64)
	rep := int(verifConcretize(uint64(ndU8("repeatedHost") % 4))) // host 0, 1, 2 or 3 answers again at the end
	go func() {
		for i := 0; i < N; i++ {
			in <- &c14Result{id: "10." + string(rune('0'+i/100000%10)) + string(rune('0'+i/10000%10)) + "." + string(rune('0'+i/1000%10)) + string(rune('0'+i/100%10)) + "." + string(rune('0'+i/10%10)) + string(rune('0'+i%10))}
		}
		in <- &c14Result{id: "10.00.00.0" + string(rune('0'+rep))}
		close(in)
	}()
	ul := NewUniqueLogger(nil)
	n := 0
	for range ul.uniqResults(context.Background(), in) {
		n++
	}
	verifAssert(n == N, "a host that had been printed was printed again (or one was lost) in a long live session")
	verifCover("done")
}

// VerifH_C14_uniqueRepeat: a long live session over FEW hosts: H hosts answer in every one of R passes
// (R beyond any small counter width: 8 and 16 bit): each host is printed exactly once, the first time.
// Concrete execution except for the number of hosts.
func VerifH_C14_uniqueRepeat() {
	R := verifParam("R", 70000)
	H := 1 + int(verifConcretize(uint64(ndU8("hosts")%3)))
	in := make(chan scan.Result, 64)
	go func() {
		for p := 0; p < R; p++ {
			for h := 0; h < H; h++ {
				in <- &c14Result{id: "10.0.0." + string(rune('1'+h))}
			}
		}
		close(in)
	}()
	ul := NewUniqueLogger(nil)
	var got []string
	for r := range ul.uniqResults(context.Background(), in) {
		got = append(got, r.ID())
	}
	verifAssert(len(got) == H, "a host seen in every pass of a long live session was printed more than once (or not at all)")
	for h := 0; h < H && h < len(got); h++ {
		verifAssert(got[h] == "10.0.0."+string(rune('1'+h)), "hosts printed in another order than first seen")
	}
	verifCover("done")
}

type c14SlowWriter struct {
	out     []byte
	busy    bool
	overlap bool
	d       time.Duration
}

// a slow output (pipe to a slow consumer): every Write takes d; the bytes count as written at its end
func (w *c14SlowWriter) Write(p []byte) (int, error) {
	if w.busy {
		w.overlap = true // two Write calls at the same time: the output would interleave them
	}
	w.busy = true
	cp := append([]byte{}, p...)
	time.Sleep(w.d)
	w.out = append(w.out, cp...)
	w.busy = false
	return len(p), nil
}

// VerifH_C14_slowOutput: results keep arriving while the output is slow and the periodic flush comes due
// several times (flush interval shorter than one Write): the output is still exactly one complete line
// per result, in order, and no two writes to the output overlap.  Logical clock.
func VerifH_C14_slowOutput() {
	K := verifParam("K", 6)
	gap := []time.Duration{500 * time.Microsecond, time.Millisecond, 4 * time.Millisecond}[int(verifConcretize(uint64(ndU8("gap")%3)))]
	w := &c14SlowWriter{d: 3 * time.Millisecond}
	lg := &logger{zapl: zap.NewNop(), label: "t", w: w, rw: &JSONResultWriter{}, flushInterval: 2 * time.Millisecond}
	in := make(chan scan.Result, K)
	var exp []byte
	verifNow()
	go func() {
		for i := 0; i < K; i++ {
			time.Sleep(gap)
			in <- &c14Result{id: string(rune('a' + i)), data: []byte{'{', '"', byte('a' + i), '"', ':', '1', '}'}}
		}
		close(in)
	}()
	for i := 0; i < K; i++ {
		exp = append(exp, '{', '"', byte('a'+i), '"', ':', '1', '}', '\n')
	}
	lg.LogResults(context.Background(), in)
	time.Sleep(20 * time.Millisecond) // anything still flushing in the background has finished
	verifAssert(!w.overlap, "two writes to the output were in progress at the same time (lines may interleave)")
	verifAssert(string(w.out) == string(exp), "output is not exactly one complete line per result, in order, when the output is slow and flushes come due")
	verifCover("done")
}
