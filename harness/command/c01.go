package command

import (
	"context"
	"errors"
	"io"
	"net"
	"os"
	"sort"
	"strings"

	"github.com/v-byte-cpu/sx/pkg/scan"
)

// ---- chunking: startPortScanEngine ----

var (
	c01Chunks  [][]*scan.PortRange
	c01FailAt  int
	c01Configs []*packetScanConfig
)

var errC01Chunk = errors.New("engine failed")

func verifSeam_startPacketScanEngine(ctx context.Context, conf *packetScanConfig) error {
	c01Chunks = append(c01Chunks, conf.scanRange.Ports)
	c01Configs = append(c01Configs, conf)
	if len(c01Chunks) == c01FailAt {
		return errC01Chunk
	}
	return nil
}

// VerifH_C01_chunks: NP port ranges: the engine runs once per chunk of at most 200 ranges, the
// chunks are consecutive, disjoint and cover the list in order; a failing chunk stops the scan.
func VerifH_C01_chunks() {
	NP := verifParam("NP", 401)
	ports := make([]*scan.PortRange, NP)
	for i := range ports {
		ports[i] = &scan.PortRange{StartPort: uint16(i + 1), EndPort: uint16(i + 1)}
	}
	c01Chunks, c01Configs = nil, nil
	nChunks := (NP + 199) / 200
	fa := ndU8("failAt")
	verifAssume(int(fa) <= nChunks)
	c01FailAt = int(verifConcretize(uint64(fa)))
	subnet := &net.IPNet{IP: net.IPv4(10, 0, 0, 0).To4(), Mask: net.CIDRMask(24, 32)}
	conf := newPacketScanConfig(withRateCount(7), withPacketVPNmode(true),
		withPacketEngineConfig(newEngineConfig(withScanRange(&scan.Range{DstSubnet: subnet, Ports: ports}), withExitDelay(5))))
	err := startPortScanEngine(context.Background(), conf)
	want := nChunks
	if c01FailAt > 0 {
		want = c01FailAt
		verifAssert(err == errC01Chunk, "the failure of a chunk is not returned")
	} else {
		verifAssert(err == nil, "chunked scan failed")
	}
	verifAssert(len(c01Chunks) == want, "not one engine run per chunk (or the scan went on after a failing chunk)")
	next := 0
	for k, ch := range c01Chunks {
		verifAssert(len(ch) >= 1 && len(ch) <= 200, "a chunk is empty or larger than 200 ranges")
		for _, pr := range ch {
			verifAssert(next < NP && pr == ports[next], "chunks are not consecutive slices of the port list (a range lost, repeated or reordered)")
			next++
		}
		c := c01Configs[k]
		verifAssert(c.rateCount == 7 && c.vpnMode && c.exitDelay == 5 && c.scanRange.DstSubnet == subnet, "the rest of the configuration is not passed unchanged to a chunk")
	}
	if c01FailAt == 0 {
		verifAssert(next == NP, "the chunks do not cover the whole port list")
	}
	verifCover("done")
}

// ---- mode selection: newIPPortGenerator (both copies) ----

var (
	c01Files      map[string]string
	c01StdinText  string
	c01StdinTaken bool
	c01Opens      []string
)

func verifSeam_osOpen(name string) (*os.File, error) {
	c01Opens = append(c01Opens, name)
	return nil, errors.New("not used: see verifSeam_openReader")
}

// the generators only need an io.ReadCloser: the seam replaces os.Open(name) inside the closures
func verifSeam_openReader(name string) (io.ReadCloser, error) {
	c01Opens = append(c01Opens, name)
	text, ok := c01Files[name]
	if !ok {
		return nil, os.ErrNotExist
	}
	return io.NopCloser(strings.NewReader(text)), nil
}

// io.NopCloser(os.Stdin): one stream for the whole process, consumed once
func verifSeam_stdin(r io.Reader) io.ReadCloser {
	if c01StdinTaken {
		return io.NopCloser(strings.NewReader(""))
	}
	c01StdinTaken = true
	return io.NopCloser(strings.NewReader(c01StdinText))
}

type c01Excl struct{ drop string }

func (e *c01Excl) Contains(ip net.IP) (bool, error) { return ip.String() == e.drop, nil }

func c01Collect(g scan.RequestGenerator, r *scan.Range) ([]string, []error) {
	ch, err := g.GenerateRequests(context.Background(), r)
	if err != nil {
		return nil, []error{err}
	}
	var out []string
	var errs []error
	for rq := range ch {
		if rq.Err != nil {
			errs = append(errs, rq.Err)
			continue
		}
		out = append(out, rq.DstIP.String()+":"+itoa(int(rq.DstPort)))
	}
	sort.Strings(out)
	return out, errs
}

func itoa(n int) string {
	if n == 0 {
		return "0"
	}
	var b []byte
	for ; n > 0; n /= 10 {
		b = append([]byte{byte('0' + n%10)}, b...)
	}
	return string(b)
}

// VerifH_C01_modes: every combination of target mode (subnet | pair file | address file x ports,
// from a regular file or stdin), ports given by -p and/or --ports-file, exclusion on/off:
// the generator stack chosen by newIPPortGenerator yields exactly the denoted (address, port) multiset.
func VerifH_C01_modes() {
	generic := verifParam("GENERIC", 0) == 1
	fileMode := int(verifConcretize(uint64(ndU8("fileMode") % 3))) // 0 no file, 1 regular file, 2 stdin
	portsFromFlag, portsFromFile := ndBool("portsFlag"), ndBool("portsFile")
	withExcl := ndBool("exclude")
	hasPorts := portsFromFlag || portsFromFile
	c01Files = map[string]string{
		"pairs.jsonl": "{\"ip\":\"10.0.0.1\",\"port\":22}\n{\"ip\":\"10.0.0.2\",\"port\":8080}\n",
		"addrs.jsonl": "{\"ip\":\"10.0.0.1\"}\n{\"ip\":\"10.0.0.2\"}\n",
	}
	c01StdinTaken, c01Opens = false, nil
	var ipFile string
	switch fileMode {
	case 1:
		ipFile = "addrs.jsonl"
		if !hasPorts {
			ipFile = "pairs.jsonl"
		}
	case 2:
		ipFile = "-"
		c01StdinText = c01Files["addrs.jsonl"]
		if !hasPorts {
			c01StdinText = c01Files["pairs.jsonl"]
		}
	}
	var prs []*scan.PortRange
	raw := ""
	if portsFromFlag {
		prs = append(prs, &scan.PortRange{StartPort: 80, EndPort: 80})
		raw = "80"
	}
	if portsFromFile {
		prs = append(prs, &scan.PortRange{StartPort: 443, EndPort: 444})
	}
	var excl scan.IPContainer
	if withExcl {
		// the container the commands really use (cidranger behind parseExcludeFile)
		ex, eerr := parseExcludeFile(func() (io.ReadCloser, error) {
			return io.NopCloser(strings.NewReader("10.0.0.2\n")), nil
		})
		verifAssert(eerr == nil && ex != nil, "well-formed exclusion file refused")
		excl = ex
		if ex == nil {
			excl = &c01Excl{drop: "10.0.0.2"}
		}
	}
	var gen scan.RequestGenerator
	if generic {
		o := &genericScanCmdOpts{ipFile: ipFile, portRanges: prs, rawPortRanges: raw, excludeIPs: excl}
		gen = o.newIPPortGenerator()
	} else {
		o := &ipPortScanCmdOpts{portRanges: prs, rawPortRanges: raw}
		o.ipFile, o.excludeIPs = ipFile, excl
		gen = o.newIPPortGenerator()
	}
	subnet := &net.IPNet{IP: net.IPv4(10, 0, 0, 0).To4(), Mask: net.CIDRMask(30, 32)}
	r := &scan.Range{Ports: prs}
	if fileMode == 0 {
		r.DstSubnet = subnet
	} else if ndBool("positionalTargetToo") {
		// a positional subnet may be given together with -f: the targets are still those of the file
		r.DstSubnet = &net.IPNet{IP: net.IPv4(192, 168, 77, 0).To4(), Mask: net.CIDRMask(24, 32)}
	}
	if fileMode == 0 && !hasPorts {
		verifCover("no-ports-no-file")
		return // refused earlier by the commands (ports are required for a subnet scan)
	}
	if fileMode == 2 && !hasPorts {
		// a pair file is read from a path only; "-" is opened like a regular name (and fails): stdin is not accepted here
		return
	}
	got, errs := c01Collect(gen, r)
	// ---- the denoted multiset ----
	var addrs []string
	switch fileMode {
	case 0:
		addrs = []string{"10.0.0.0", "10.0.0.1", "10.0.0.2", "10.0.0.3"}
	default:
		addrs = []string{"10.0.0.1", "10.0.0.2"}
	}
	var want []string
	if fileMode != 0 && !hasPorts {
		want = []string{"10.0.0.1:22", "10.0.0.2:8080"}
	} else {
		var ports []int
		if portsFromFlag {
			ports = append(ports, 80)
		}
		if portsFromFile {
			ports = append(ports, 443, 444)
		}
		for _, a := range addrs {
			for _, p := range ports {
				want = append(want, a+":"+itoa(p))
			}
		}
	}
	if withExcl {
		var kept []string
		for _, w := range want {
			if !strings.HasPrefix(w, "10.0.0.2:") {
				kept = append(kept, w)
			}
		}
		want = kept
	}
	sort.Strings(want)
	// stdin x ports: the address source is re-opened for every port, but stdin can be read only once
	if verifKnown("C01-stdin-reread-per-port", fileMode == 2 && portsFromFile) {
		verifCover("known-stdin")
	}
	if verifParam("CONFINE", 0) == 1 {
		// C02 asks for confinement only (coverage is C01's business): every probe is one of the
		// denoted pairs, none is addressed to an excluded host, none is made twice
		inWant := map[string]int{}
		for _, w := range want {
			inWant[w]++
		}
		for _, g := range got {
			verifAssert(inWant[g] > 0, "a probe is addressed outside the target specification or to an excluded address (or made twice)")
			inWant[g]--
		}
		verifCover("done")
		return
	}
	verifAssert(len(errs) == 0, "a well-formed target specification produced errors")
	verifAssert(strings.Join(got, " ") == strings.Join(want, " "), "the probes generated are not exactly the (address, port) pairs the specification denotes")
	verifCover("done")
}
