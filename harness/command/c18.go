package command

import (
	"io"
	"strings"
	"time"

	"github.com/v-byte-cpu/sx/pkg/scan/tcp"
)

// ---- reference readers (written from the property text, not from the code) ----

// refDecimal reads b as an unsigned decimal number: digits only, non-empty,
// value <= max.  No sign, no underscore, no blanks.
func refDecimal(b []byte, max uint64) (v uint64, ok bool) {
	if len(b) == 0 {
		return 0, false
	}
	for _, c := range b {
		if c < '0' || c > '9' {
			return 0, false
		}
		v = v*10 + uint64(c-'0')
		if v > max {
			return 0, false
		}
	}
	return v, true
}

// splitByte splits b at every occurrence of sep (like strings.Split, written out).
func splitByte(b []byte, sep byte) [][]byte {
	var out [][]byte
	start := 0
	for i := 0; i < len(b); i++ {
		if b[i] == sep {
			out = append(out, b[start:i])
			start = i + 1
		}
	}
	return append(out, b[start:])
}

// VerifH_C18_portRange: every string of length L.
func VerifH_C18_portRange() {
	L := verifParam("L", 3)
	b := ndBytes("s", L)
	r, err := parsePortRange(string(b))
	if err != nil {
		verifCover("rejected")
		return
	}
	verifCover("accepted")
	verifAssert(r != nil, "accepted port range is nil")
	parts := splitByte(b, '-')
	lo, ok := refDecimal(parts[0], 65535)
	verifAssert(ok, "accepted a start bound that is not a decimal number in 0..65535")
	verifAssert(uint64(r.StartPort) == lo, "start bound is not the number written")
	if len(parts) == 1 {
		verifAssert(uint64(r.EndPort) == lo, "single port: end bound differs from the number written")
		return
	}
	hi, ok := refDecimal(parts[1], 65535)
	verifAssert(ok, "accepted an end bound that is not a decimal number in 0..65535")
	verifAssert(uint64(r.EndPort) == hi, "end bound is not the number written")
}

// VerifH_C18_portRanges: comma separated lists, every string of length L.
func VerifH_C18_portRanges() {
	L := verifParam("L", 3)
	b := ndBytes("s", L)
	rs, err := parsePortRanges(string(b))
	if err != nil {
		verifCover("rejected")
		return
	}
	verifCover("accepted")
	items := splitByte(b, ',')
	verifAssert(len(rs) == len(items), "number of ranges differs from the number of list items")
	for i, it := range items {
		parts := splitByte(it, '-')
		lo, ok := refDecimal(parts[0], 65535)
		verifAssert(ok, "list item: accepted start bound is not decimal")
		verifAssert(rs[i] != nil && uint64(rs[i].StartPort) == lo, "list item: start bound is not the number written")
		hi := lo
		if len(parts) > 1 {
			hi, ok = refDecimal(parts[1], 65535)
			verifAssert(ok, "list item: accepted end bound is not decimal")
		}
		verifAssert(uint64(rs[i].EndPort) == hi, "list item: end bound is not the number written")
	}
}

// c18Digits returns a canonical decimal numeral of n digits (no leading zero unless n == 1)
// whose digits are solver variables, and its value.  Every number has exactly one such numeral.
func c18Digits(label string, n int, max uint64) ([]byte, uint64) {
	b := make([]byte, n)
	var v uint64
	for i := range b {
		d := ndU8(label)
		verifAssume(d <= 9)
		if i == 0 && n > 1 {
			verifAssume(d != 0)
		}
		b[i] = '0' + d
		v = v*10 + uint64(d)
	}
	verifAssume(v <= max)
	return b, v
}

// VerifH_C18_portRoundTrip: the canonical numeral of every port pair parses back.
func VerifH_C18_portRoundTrip() {
	la := verifParam("LA", 2)
	lz8 := ndU8("lenZ")
	verifAssume(lz8 >= 1 && lz8 <= 5)
	lz := int(verifConcretize(uint64(lz8)))
	ab, a := c18Digits("a", la, 65535)
	zb, z := c18Digits("z", lz, 65535)
	s := string(ab) + "-" + string(zb)
	r, err := parsePortRange(s)
	verifAssert(err == nil, "canonical a-z rendering rejected")
	if err == nil {
		verifAssert(uint64(r.StartPort) == a && uint64(r.EndPort) == z, "canonical a-z rendering parses to other bounds")
	}
	r, err = parsePortRange(string(ab))
	verifAssert(err == nil, "canonical single port rejected")
	if err == nil {
		verifAssert(uint64(r.StartPort) == a && uint64(r.EndPort) == a, "canonical single port parses to other bounds")
	}
	rs, err := parsePortRanges(s + "," + string(zb))
	verifAssert(err == nil && len(rs) == 2, "canonical list rejected")
	if err == nil && len(rs) == 2 {
		verifAssert(uint64(rs[0].StartPort) == a && uint64(rs[0].EndPort) == z && uint64(rs[1].StartPort) == z && uint64(rs[1].EndPort) == z, "canonical list parses to other bounds")
	}
	verifCover("done")
}

// VerifH_C18_rateLimit: every string of length L.
func VerifH_C18_rateLimit() {
	L := verifParam("L", 3)
	b := ndBytes("s", L)
	count, window, err := parseRateLimit(string(b))
	if err != nil {
		verifCover("rejected")
		verifAssert(count == 0 && window == 0, "error together with a non-zero rate")
		return
	}
	verifCover("accepted")
	parts := splitByte(b, '/')
	verifAssert(len(parts) <= 2, "accepted a rate with more than one slash")
	// the count: decimal digits, optional leading '+' (strconv.ParseInt accepts a sign; a
	// negative count must be refused), at most 2^31-1
	cb := parts[0]
	neg := false
	if len(cb) > 0 && (cb[0] == '+' || cb[0] == '-') {
		neg = cb[0] == '-'
		cb = cb[1:]
	}
	n, ok := refDecimal(cb, 1<<31-1)
	verifAssert(ok, "accepted a count that is not a decimal number")
	verifAssert(!neg || n == 0, "accepted a negative count")
	verifAssert(uint64(count) == n && count >= 0, "count is not the number written")
	if len(parts) == 1 {
		verifAssert(window == time.Second, "no window written: must be one second")
		return
	}
	// the window the user wrote: if it is a duration by itself, that duration;
	// a bare unit ("s", "ms", "m") stands for one unit.
	w := string(parts[1])
	if verifKnown("C18-rate-window-leading-dot", len(w) > 0 && w[0] == '.') {
		verifCover("known-dot-window")
	}
	if ref, rerr := time.ParseDuration(w); rerr == nil {
		verifCover("window-is-duration")
		verifAssert(window == ref, "window is not the duration written")
	} else {
		ref1, rerr1 := time.ParseDuration("1" + w)
		verifAssert(rerr1 == nil, "accepted a window that is neither a duration nor a unit")
		verifAssert(window == ref1, "bare unit window is not one unit")
	}
	verifAssert(window >= 0, "negative window accepted")
}

// VerifH_C18_rateWindow: a fixed count and every window string of length LW ("7/" + LW bytes).
func VerifH_C18_rateWindow() {
	LW := verifParam("LW", 2)
	wb := ndBytes("w", LW)
	for _, c := range wb {
		verifAssume(c < 0x80 && c != '/')
	}
	count, window, err := parseRateLimit("7/" + string(wb))
	if err != nil {
		verifCover("rejected")
		return
	}
	verifCover("accepted")
	verifAssert(count == 7, "count is not the number written")
	w := string(wb)
	if verifKnown("C18-rate-window-leading-dot", LW > 0 && wb[0] == '.') {
		verifCover("known-dot-window")
	}
	if ref, rerr := time.ParseDuration(w); rerr == nil {
		verifCover("window-is-duration")
		verifAssert(window == ref, "window is not the duration written")
	} else {
		ref1, rerr1 := time.ParseDuration("1" + w)
		verifAssert(rerr1 == nil, "accepted a window that is neither a duration nor a unit")
		verifAssert(window == ref1, "bare unit window is not one unit")
	}
	verifAssert(window >= 0, "negative window accepted")
}

// VerifH_C18_rateRoundTrip: canonical renderings "N/Wunit", "N/unit", "N" parse back.
func VerifH_C18_rateRoundTrip() {
	ln := verifParam("LN", 2)
	lw8 := ndU8("lenW")
	verifAssume(lw8 >= 1 && lw8 <= 3)
	lw := int(verifConcretize(uint64(lw8)))
	nb, n := c18Digits("n", ln, 1<<31-1)
	wb, w := c18Digits("w", lw, 999)
	verifAssume(w >= 1)
	u := ndU8("unit")
	verifAssume(u < 3)
	units := [3]string{"ms", "s", "m"}
	durs := [3]time.Duration{time.Millisecond, time.Second, time.Minute}
	uu := int(verifConcretize(uint64(u)))
	c, win, err := parseRateLimit(string(nb) + "/" + string(wb) + units[uu])
	verifAssert(err == nil, "canonical N/Wunit rejected")
	if err == nil {
		verifAssert(uint64(c) == n, "canonical rate: count differs")
		verifAssert(win == time.Duration(w)*durs[uu], "canonical rate: window differs")
	}
	// bare unit
	c, win, err = parseRateLimit(string(nb) + "/" + units[uu])
	verifAssert(err == nil && uint64(c) == n && win == durs[uu], "canonical N/unit does not parse to one unit")
	// no window
	c, win, err = parseRateLimit(string(nb))
	verifAssert(err == nil && uint64(c) == n && win == time.Second, "canonical N does not parse to N per second")
	verifCover("done")
}

var c18TCPNames = [9]string{"fin", "syn", "rst", "psh", "ack", "urg", "ece", "cwr", "ns"}

func c18FlagBits(t *tcp.PacketFiller) uint16 {
	var v uint16
	set := func(b bool, k uint) {
		if b {
			v |= 1 << k
		}
	}
	set(t.FIN, 0)
	set(t.SYN, 1)
	set(t.RST, 2)
	set(t.PSH, 3)
	set(t.ACK, 4)
	set(t.URG, 5)
	set(t.ECE, 6)
	set(t.CWR, 7)
	set(t.NS, 8)
	return v
}

// VerifH_C18_tcpFlagsSubset: every subset of the nine flags, in two orders,
// with symbolic letter case, parses to exactly that subset of header bits.
func VerifH_C18_tcpFlagsSubset() {
	mask := ndU16("mask")
	verifAssume(mask < 512)
	m := uint16(verifConcretize(uint64(mask)))
	rev := ndBool("reverse")
	var names []string
	for k := 0; k < 9; k++ {
		i := k
		if rev {
			i = 8 - k
		}
		if m&(1<<uint(i)) != 0 {
			names = append(names, c18TCPNames[i])
		}
	}
	// render with symbolic letter case: one choice per flag name (CASE=1) or per list (CASE=0)
	perName := verifParam("CASE", 0) == 1
	listUpper := ndBool("upperAll")
	var s []byte
	for j, n := range names {
		if j > 0 {
			s = append(s, ',')
		}
		up := listUpper
		if perName {
			up = ndBool("upper")
		}
		for i := 0; i < len(n); i++ {
			c := n[i]
			if up {
				c -= 'a' - 'A'
			}
			s = append(s, c)
		}
	}
	flags, err := parseTCPFlags(string(s))
	verifAssert(err == nil, "canonical flag list rejected")
	if err != nil {
		return
	}
	verifAssert(len(flags) == len(names), "number of parsed flags differs")
	var opts []tcp.PacketFillerOption
	for _, f := range flags {
		opt, ok := tcpPacketFlagOptions[f]
		verifAssert(ok, "parsed flag has no filler option")
		if ok {
			opts = append(opts, opt)
		}
	}
	bits := c18FlagBits(tcp.NewPacketFiller(opts...))
	verifAssert(bits == m, "flag list does not set exactly the named header bits")
	verifCover("done")
}

// VerifH_C18_tcpFlagsAny: every string of length L either is refused or names flags only.
// c18ASCII restricts a symbolic string to ASCII (the letter-case folding of the flag parsers
// walks UTF-8 sequences byte value by byte value; non-ASCII input is a separate, shorter obligation).
func c18ASCII(b []byte) {
	if verifParam("ASCII", 1) == 1 {
		for _, c := range b {
			verifAssume(c < 0x80)
		}
	}
}

func VerifH_C18_tcpFlagsAny() {
	L := verifParam("L", 3)
	b := ndBytes("s", L)
	c18ASCII(b)
	flags, err := parseTCPFlags(string(b))
	if err != nil {
		verifCover("rejected")
		return
	}
	verifCover("accepted")
	items := splitByte(b, ',')
	if L == 0 {
		verifAssert(len(flags) == 0, "empty string gives flags")
		return
	}
	verifAssert(len(flags) == len(items), "number of flags differs from list items")
	for i, it := range items {
		// lower-case the item by hand and look it up among the nine names
		found := -1
		for k, n := range c18TCPNames {
			if len(n) != len(it) {
				continue
			}
			eq := true
			for j := 0; j < len(n); j++ {
				c := it[j]
				if c >= 'A' && c <= 'Z' {
					c += 'a' - 'A'
				}
				if c != n[j] {
					eq = false
				}
			}
			if eq {
				found = k
			}
		}
		verifAssert(found >= 0, "accepted an item that is not a TCP flag name")
		if found >= 0 {
			verifAssert(flags[i] == c18TCPNames[found], "parsed flag is not the one written")
		}
	}
}

// VerifH_C18_ipFlags: every string of length L; and canonical subsets.
func VerifH_C18_ipFlags() {
	L := verifParam("L", 3)
	b := ndBytes("s", L)
	c18ASCII(b)
	r, err := parseIPFlags(string(b))
	if err != nil {
		verifCover("rejected")
		verifAssert(r == 0, "error together with flags")
		return
	}
	verifCover("accepted")
	if L == 0 {
		verifAssert(r == 0, "empty string sets flags")
		return
	}
	var want uint8
	for _, it := range splitByte(b, ',') {
		low := make([]byte, len(it))
		for j, c := range it {
			if c >= 'A' && c <= 'Z' {
				c += 'a' - 'A'
			}
			low[j] = c
		}
		switch string(low) {
		case "df":
			want |= 2
		case "mf":
			want |= 1
		case "evil":
			want |= 4
		default:
			verifAssert(false, "accepted an item that is not an IP flag name")
		}
	}
	verifAssert(r == want, "IP flags differ from the named bits (evil=4, df=2, mf=1)")
}

func VerifH_C18_ipFlagsSubset() {
	names := [3]string{"mf", "df", "evil"}
	mask := ndU8("mask")
	verifAssume(mask < 8)
	m := uint8(verifConcretize(uint64(mask)))
	rev := ndBool("reverse")
	var s []byte
	first := true
	for k := 0; k < 3; k++ {
		i := k
		if rev {
			i = 2 - k
		}
		if m&(1<<uint(i)) == 0 {
			continue
		}
		if !first {
			s = append(s, ',')
		}
		first = false
		up := ndBool("upper")
		for j := 0; j < len(names[i]); j++ {
			c := names[i][j]
			if up {
				c -= 'a' - 'A'
			}
			s = append(s, c)
		}
	}
	r, err := parseIPFlags(string(s))
	verifAssert(err == nil, "canonical IP flag list rejected")
	verifAssert(r == m, "canonical IP flag list parses to other bits")
	verifCover("done")
}

// VerifH_C18_payload: every string of length L: refused, or exactly the unescaped bytes.
func VerifH_C18_payload() {
	L := verifParam("L", 3)
	b := ndBytes("s", L)
	r, err := parsePacketPayload(string(b))
	if err != nil {
		verifCover("rejected")
		return
	}
	verifCover("accepted")
	// reference un-escaper for the escapes a byte payload can be written with
	var want []byte
	ok := true
	for i := 0; i < len(b) && ok; i++ {
		c := b[i]
		if c != '\\' {
			if c == '"' || c == '\n' {
				ok = false
				break
			}
			want = append(want, c)
			continue
		}
		i++
		if i >= len(b) {
			ok = false
			break
		}
		switch b[i] {
		case 'x':
			if i+2 >= len(b) {
				ok = false
				break
			}
			h, okh := refHex(b[i+1])
			l, okl := refHex(b[i+2])
			if !okh || !okl {
				ok = false
				break
			}
			want = append(want, h<<4|l)
			i += 2
		case 'n':
			want = append(want, '\n')
		case 't':
			want = append(want, '\t')
		case 'r':
			want = append(want, '\r')
		case '\\':
			want = append(want, '\\')
		case '"':
			want = append(want, '"')
		case '0', '1', '2', '3', '4', '5', '6', '7', 'a', 'b', 'f', 'v', 'u', 'U':
			// octal, bell etc., unicode escapes: legal Go escapes outside this reference; not judged
			verifCover("other-escape")
			return
		default:
			ok = false
		}
	}
	verifAssert(ok, "accepted a payload that is not a well-formed escaped string")
	if !ok {
		return
	}
	// invalid UTF-8 in the source text is replaced by U+FFFD by the unquoter; judged only for ASCII text
	for _, c := range b {
		if c >= 0x80 {
			verifCover("non-ascii")
			return
		}
	}
	verifAssert(len(r) == len(want), "payload length differs from the unescaped text")
	if len(r) == len(want) {
		for i := range r {
			verifAssert(r[i] == want[i], "payload byte differs from the unescaped text")
		}
	}
}

func refHex(c byte) (byte, bool) {
	switch {
	case c >= '0' && c <= '9':
		return c - '0', true
	case c >= 'a' && c <= 'f':
		return c - 'a' + 10, true
	case c >= 'A' && c <= 'F':
		return c - 'A' + 10, true
	}
	return 0, false
}

// VerifH_C18_payloadRoundTrip: every byte string of length N rendered as \xNN parses back.
func VerifH_C18_payloadRoundTrip() {
	N := verifParam("N", 2)
	p := ndBytes("p", N)
	const hexd = "0123456789abcdef"
	var s []byte
	for _, c := range p {
		s = append(s, '\\', 'x', hexd[c>>4], hexd[c&15])
	}
	r, err := parsePacketPayload(string(s))
	verifAssert(err == nil, "canonical \\xNN payload rejected")
	verifAssert(len(r) == N, "canonical payload: length differs")
	if len(r) == N {
		for i := range r {
			verifAssert(r[i] == p[i], "canonical payload: byte differs")
		}
	}
	verifCover("done")
}

// VerifH_C18_portsFile: every ASCII file text of length L (newlines, '#', blanks included) through
// the real parsePortsFile: refused, or exactly the list denoted by its non-comment lines.
func VerifH_C18_portsFile() {
	L := verifParam("L", 3)
	b := ndBytes("f", L)
	for _, c := range b {
		verifAssume(c < 0x80 && c != '\r')
	}
	text := string(b)
	rs, err := parsePortsFile(func() (io.ReadCloser, error) { return io.NopCloser(strings.NewReader(text)), nil })
	if err != nil {
		verifCover("rejected")
		return
	}
	verifCover("accepted")
	// reference reading: line by line, '#' starts a comment, blanks around the entry are ignored
	var want [][2]uint64
	for _, line := range splitByte(b, '\n') {
		for i, c := range line {
			if c == '#' {
				line = line[:i]
				break
			}
		}
		for len(line) > 0 && line[0] == ' ' {
			line = line[1:]
		}
		for len(line) > 0 && line[len(line)-1] == ' ' {
			line = line[:len(line)-1]
		}
		if len(line) == 0 {
			continue
		}
		parts := splitByte(line, '-')
		lo, ok := refDecimal(parts[0], 65535)
		verifAssert(ok, "ports file: accepted a start bound that is not a decimal number in 0..65535")
		hi := lo
		if len(parts) > 1 {
			hi, ok = refDecimal(parts[1], 65535)
			verifAssert(ok, "ports file: accepted an end bound that is not a decimal number in 0..65535")
		}
		want = append(want, [2]uint64{lo, hi})
	}
	verifAssert(len(rs) == len(want), "ports file: number of ranges differs from the number of entries written")
	for i := range want {
		if i < len(rs) {
			verifAssert(rs[i] != nil && uint64(rs[i].StartPort) == want[i][0] && uint64(rs[i].EndPort) == want[i][1], "ports file: a range is not the entry written")
		}
	}
}

// VerifH_C18_portsLong: a ports file with two entries and one comment line of LONG bytes at a
// solver-chosen position: refused, or both entries returned - never a silently truncated list.
func VerifH_C18_portsLong() {
	lines := []string{"80", "443-445"}
	long := "#" + strings.Repeat("x", verifParam("LONG", 65536))
	pos := ndU8("longLineAt")
	verifAssume(pos <= 2)
	k := int(verifConcretize(uint64(pos)))
	lines = append(lines[:k], append([]string{long}, lines[k:]...)...)
	text := strings.Join(lines, "\n") + "\n"
	rs, err := parsePortsFile(func() (io.ReadCloser, error) { return io.NopCloser(strings.NewReader(text)), nil })
	if err != nil {
		verifCover("rejected")
		return
	}
	verifCover("accepted")
	verifAssert(len(rs) == 2, "ports file: entries after (or before) an over-long line were silently dropped")
	if len(rs) == 2 {
		verifAssert(rs[0].StartPort == 80 && rs[0].EndPort == 80 && rs[1].StartPort == 443 && rs[1].EndPort == 445, "ports file: a range is not the entry written")
	}
}
