package command

import (
	"context"
	"io"
	"net"
	"os"
	"strings"
	"time"

	"github.com/v-byte-cpu/sx/command/log"
	"github.com/v-byte-cpu/sx/pkg/scan"
	"github.com/v-byte-cpu/sx/pkg/scan/arp"
	"github.com/v-byte-cpu/sx/pkg/scan/icmp"
	"github.com/v-byte-cpu/sx/pkg/scan/tcp"
	"github.com/v-byte-cpu/sx/pkg/scan/udp"
)

// ---- wiring extraction: each command's RunE closure is interpreted up to the engine start ----

var (
	wireConf     *packetScanConfig
	wireVia      string
	wireRange    *scan.Range
	wireRate     int
	wireWindow   time.Duration
	wireDelay    time.Duration
	wireVPN      bool
	wireLogger   = &c16Logger{}
	wireRawCalls int
)

func verifSeam_NotifyContext(parent context.Context, sig ...os.Signal) (context.Context, context.CancelFunc) {
	return context.WithCancel(parent)
}

// wireProbe runs while the command's context is still alive (records travel through the real
// result channel, which closes when RunE returns)
var wireProbe func(conf *packetScanConfig)

func verifSeam_wirePort(ctx context.Context, conf *packetScanConfig) error {
	wireConf, wireVia = conf, "port"
	if wireProbe != nil {
		wireProbe(conf)
	}
	return nil
}

func verifSeam_wirePacket(ctx context.Context, conf *packetScanConfig) error {
	wireConf, wireVia = conf, "packet"
	if wireProbe != nil {
		wireProbe(conf)
	}
	return nil
}

var (
	wireRec  scan.Result
	wirePerr error
)

func wireFeed(frame []byte) func(conf *packetScanConfig) {
	return func(conf *packetScanConfig) {
		f := append([]byte{}, frame...)
		wirePerr = conf.scanMethod.ProcessPacketData(f[:len(f):len(f)], nil)
		verifYield()
		select {
		case r := <-conf.scanMethod.Results():
			wireRec = r
		default:
		}
	}
}

func wireCommon(o *packetScanCmdOpts) {
	wireRawCalls++
	o.rateCount, o.rateWindow, o.exitDelay = wireRate, wireWindow, wireDelay
}

func verifSeam_rawTCP(o *tcpCmdOpts) error { wireCommon(&o.packetScanCmdOpts); return nil }
func verifSeam_rawTCPFlags(o *tcpFlagsCmdOpts) error {
	wireCommon(&o.packetScanCmdOpts)
	o.tcpFlags = []string{"fin", "ack"}
	return nil
}
func verifSeam_rawUDP(o *udpCmdOpts) error {
	wireCommon(&o.packetScanCmdOpts)
	if wireSetUDP != nil {
		wireSetUDP(o)
	}
	return nil
}
func verifSeam_rawICMP(o *icmpCmdOpts) error {
	wireCommon(&o.packetScanCmdOpts)
	if wireSetICMP != nil {
		wireSetICMP(o)
	}
	return nil
}

// option values as the raw-option parser would have left them (set inside the parse seam)
var (
	wireSetUDP  func(o *udpCmdOpts)
	wireSetICMP func(o *icmpCmdOpts)
)
func verifSeam_rawARP(o *arpCmdOpts) error   { wireCommon(&o.packetScanCmdOpts); return nil }

// wireGateway: the harness wants probes to be built (the ARP cache was parsed, a gateway MAC is known)
var wireGateway bool

func wireParsed(o *ipScanCmdOpts) {
	o.scanRange = wireRange
	o.vpnMode = wireVPN
	o.logger = wireLogger
	if wireGateway && !wireVPN {
		o.cache = arp.NewCache()
		o.gatewayMAC = net.HardwareAddr{0x10, 0x11, 0x12, 0x13, 0x14, 0x15}
	}
}

func verifSeam_optTCP(o *tcpCmdOpts, name string, args []string) error {
	wireParsed(&o.ipScanCmdOpts)
	return nil
}
func verifSeam_optTCPFlags(o *tcpFlagsCmdOpts, name string, args []string) error {
	wireParsed(&o.ipScanCmdOpts)
	return nil
}
func verifSeam_optUDP(o *udpCmdOpts, name string, args []string) error {
	wireParsed(&o.ipScanCmdOpts)
	return nil
}
func verifSeam_optICMP(o *icmpCmdOpts, name string, args []string) error {
	wireParsed(&o.ipScanCmdOpts)
	return nil
}

func verifSeam_arpScanRange(o *arpCmdOpts, dst *net.IPNet) (*scan.Range, error) {
	r := *wireRange
	r.DstSubnet = dst
	return &r, nil
}

// the arp command's own getLogger runs; only the construction of the base logger (stdout, zap) is replaced
func verifSeam_arpBaseLogger(o *packetScanCmdOpts, name string, w io.Writer) (log.Logger, error) {
	verifAssert(name == "arp", "logger label is not the scan name")
	return wireLogger, nil
}

func wireReset() {
	wireConf, wireVia, wireRawCalls = nil, "", 0
	wireRate = int(int32(ndU32("rate")))
	wireWindow = time.Duration(ndU64("window"))
	wireDelay = time.Duration(ndU64("exitDelay"))
	wireVPN = ndBool("vpn")
	wireRange = &scan.Range{
		Interface: &net.Interface{Index: 1, Name: "eth0"},
		DstSubnet: &net.IPNet{IP: net.IPv4(192, 168, 0, 0).To4(), Mask: net.CIDRMask(24, 32)},
		SrcIP:     net.IPv4(192, 168, 0, 3).To4(),
		SrcMAC:    net.HardwareAddr{0, 1, 2, 3, 4, 5},
		Ports:     []*scan.PortRange{{StartPort: 22, EndPort: 22}, {StartPort: 80, EndPort: 90}},
	}
}

func wireCheckCommon(portScan bool) bool {
	verifAssert(wireConf != nil, "the command did not reach the engine start")
	if wireConf == nil {
		return false
	}
	verifAssert(wireRawCalls == 1, "raw options not parsed exactly once")
	if portScan {
		verifAssert(wireVia == "port", "a port scan does not go through the chunking engine start")
	} else {
		verifAssert(wireVia == "packet", "a port-less scan goes through the chunking engine start")
	}
	verifAssert(wireConf.rateCount == wireRate && wireConf.rateWindow == wireWindow, "the parsed --rate does not reach the engine configuration")
	verifAssert(wireConf.exitDelay == wireDelay, "--exit-delay does not reach the engine configuration")
	if wireVia == "port" || wireConf.vpnMode || wireVPN {
		// IP-level scans: raw-IP framing is selected exactly when the source has no hardware address
		verifAssert(wireConf.vpnMode == wireVPN, "raw-IP (VPN) mode does not reach the packet source configuration")
	}
	return true
}

var wireTCPReply = []byte{0x10, 0x11, 0x12, 0x13, 0x14, 0x15, 0x00, 0x0c, 0x29, 0x04, 0x05, 0x06, 0x08, 0x00,
	0x45, 0, 0, 40, 0x12, 0x34, 0x40, 0, 64, 6, 0, 0, 192, 168, 0, 2, 192, 168, 0, 3,
	0, 22, 0x80, 0x00, 0, 0, 0, 1, 0, 0, 0, 2, 0x50, 0x14, 0xff, 0xff, 0, 0, 0, 0}

// VerifH_C03_wireTCP: the fin / null / xmas / flags commands (CMD 0..3).
func VerifH_C03_wireTCP() {
	wireReset()
	frame := wireTCPReply
	if wireVPN {
		frame = wireTCPReply[14:] // an interface without hardware address: raw-IP framing
	}
	wireRec, wirePerr, wireProbe = nil, nil, wireFeed(frame)
	var err error
	want := ""
	switch verifParam("CMD", 0) {
	case 0:
		c := newTCPFINCmd()
		err, want = c.cmd.RunE(c.cmd, nil), tcp.FINScanType
	case 1:
		c := newTCPNULLCmd()
		err, want = c.cmd.RunE(c.cmd, nil), tcp.NULLScanType
	case 2:
		c := newTCPXmasCmd()
		err, want = c.cmd.RunE(c.cmd, nil), tcp.XmasScanType
	case 3:
		c := newTCPFlagsCmd()
		err, want = c.cmd.RunE(c.cmd, nil), tcp.FlagsScanType
	}
	verifAssert(err == nil, "command failed before the engine start")
	if !wireCheckCommon(true) {
		return
	}
	verifAssert(wireConf.scanRange.DstSubnet == wireRange.DstSubnet && len(wireConf.scanRange.Ports) == 2, "the parsed target range does not reach the engine")
	got, _ := wireConf.bpfFilter(&wireConf.scanRange)
	exp, _ := tcp.BPFFilter(&wireConf.scanRange)
	verifAssert(got == exp, "a flag scan must install the plain TCP filter (any flags, source net and ports of the chunk)")
	sm, ok := wireConf.scanMethod.(*tcp.ScanMethod)
	verifAssert(ok, "not the TCP scan method")
	if !ok {
		return
	}
	// an RST+ACK reply must be reported with its flags by every flag scan
	_ = sm
	perr := wirePerr
	rec, _ := wireRec.(*tcp.ScanResult)
	verifAssert(perr == nil && rec != nil, "a TCP reply (RST+ACK) is not reported by a flag scan")
	if rec != nil {
		verifAssert(rec.ScanType == want && rec.IP == "192.168.0.2" && rec.Port == 22 && rec.Flags == "ar", "record does not carry the scan name, address, port and flags of the reply")
	}
	verifCover("done")
}

var wireICMPReply = []byte{0x10, 0x11, 0x12, 0x13, 0x14, 0x15, 0x00, 0x0c, 0x29, 0x04, 0x05, 0x06, 0x08, 0x00,
	0x45, 0, 0, 28, 0x12, 0x34, 0x40, 0, 61, 1, 0, 0, 192, 168, 0, 2, 192, 168, 0, 3,
	3, 3, 0, 0, 0, 1, 0, 2}

// VerifH_C03_wireICMP: the icmp (CMD 0) and udp (CMD 1) commands.
func VerifH_C03_wireICMP() {
	wireReset()
	frame := wireICMPReply
	if wireVPN {
		frame = wireICMPReply[14:]
	}
	wireRec, wirePerr, wireProbe = nil, nil, wireFeed(frame)
	udpCmd := verifParam("CMD", 0) == 1
	var err error
	if udpCmd {
		c := newUDPCmd()
		err = c.cmd.RunE(c.cmd, nil)
	} else {
		c := newICMPCmd()
		err = c.cmd.RunE(c.cmd, nil)
	}
	verifAssert(err == nil, "command failed before the engine start")
	if !wireCheckCommon(udpCmd) {
		return
	}
	got, _ := wireConf.bpfFilter(&wireConf.scanRange)
	exp, _ := icmp.BPFFilter(&wireConf.scanRange)
	verifAssert(got == exp, "icmp and udp scans must install the ICMP reply filter")
	perr := wirePerr
	rec, _ := wireRec.(*icmp.ScanResult)
	verifAssert(perr == nil && rec != nil, "an ICMP reply (port unreachable) is not reported")
	if rec != nil {
		wantName := icmp.ScanType
		if udpCmd {
			wantName = udp.ScanType
		}
		verifAssert(rec.ScanType == wantName && rec.IP == "192.168.0.2" && rec.TTL == 61 && rec.ICMP.Type == 3 && rec.ICMP.Code == 3, "record does not carry the scan name, address, TTL, type and code of the reply")
	}
	verifCover("done")
}

// VerifH_C03_wireARP: the arp command, with and without --live.
func VerifH_C03_wireARP() {
	wireReset()
	wireVPN = false // ARP is a link-layer scan: no raw-IP mode
	wireProbe = nil
	c := newARPCmd()
	live := ndBool("live")
	if live {
		lt := int64(ndU64("liveInterval")) // any positive interval, also below one second
		verifAssume(lt > 0)
		c.opts.liveTimeout = time.Duration(lt)
	}
	err := c.cmd.RunE(c.cmd, []string{"192.168.0.0/24"})
	verifAssert(err == nil, "command failed before the engine start")
	if !wireCheckCommon(false) {
		return
	}
	got, _ := wireConf.bpfFilter(&wireConf.scanRange)
	exp, _ := arp.BPFFilter(&wireConf.scanRange)
	verifAssert(got == exp && got == "arp src net 192.168.0.0/24", "the arp scan must install the ARP source-net filter of its target")
	ul, uniq := wireConf.logger.(*log.UniqueLogger)
	verifAssert(uniq == live, "live mode must de-duplicate its output (and only live mode)")
	// the records must be written by the logger built from the command's own options (--json, output
	// stream), with or without the de-duplicating wrapper around it
	if uniq && ul != nil {
		verifAssert(log.VerifInner(ul) == wireLogger, "the live logger does not write through the logger built from the command's options (--json would be lost)")
	} else if !live {
		verifAssert(wireConf.logger == wireLogger, "the logger is not the one built from the command's options")
	}
	_, ok := wireConf.scanMethod.(*arp.ScanMethod)
	verifAssert(ok, "not the ARP scan method")
	verifCover("done")
}

// VerifH_C19_wireARPStream: the request/packet pipeline the arp command really builds (RunE
// interpreted up to the engine start, then conf.scanMethod.Packets is drained here): target
// 192.168.0.0/29, with or without an exclusion list (192.168.0.2/31 and 192.168.0.5), with or
// without --live.  Every pass carries one ARP request for each target address that is not
// excluded and none for an excluded one; without --live the stream ends after one pass, with
// --live passes keep coming.
func VerifH_C19_wireARPStream() {
	wireReset()
	wireVPN = false
	c := newARPCmd()
	live := ndBool("live")
	if live {
		c.opts.liveTimeout = 100 * time.Millisecond
	}
	excl := ndBool("exclude")
	if excl {
		ex, err := parseExcludeFile(func() (io.ReadCloser, error) {
			return io.NopCloser(strings.NewReader("192.168.0.2/31\n192.168.0.5\n")), nil
		})
		verifAssert(err == nil, "well-formed exclusion file refused")
		c.opts.excludeIPs = ex
	}
	allowed := map[byte]bool{}
	for a := byte(0); a < 8; a++ {
		if !(excl && (a == 2 || a == 3 || a == 5)) {
			allowed[a] = true
		}
	}
	var targets []int // last octet of each probe's target address, -1 for a malformed probe
	closed := false
	passes := 1
	if live {
		passes = 3
	}
	wireProbe = func(conf *packetScanConfig) {
		sm, ok := conf.scanMethod.(*arp.ScanMethod)
		verifAssert(ok, "not the ARP scan method")
		if !ok {
			return
		}
		ctx, cancel := context.WithCancel(context.Background())
		defer cancel()
		r := conf.scanRange
		r.DstSubnet = &net.IPNet{IP: net.IPv4(192, 168, 0, 0).To4(), Mask: net.CIDRMask(29, 32)}
		pkts := sm.Packets(ctx, &r)
		for len(targets) < passes*len(allowed)+1 {
			stop := false
			select {
			case p, more := <-pkts:
				if !more {
					closed, stop = true, true
					break
				}
				t := -1
				if p.Err == nil && p.Buf != nil {
					if b := p.Buf.Bytes(); len(b) >= 42 && b[12] == 0x08 && b[13] == 0x06 && b[38] == 192 && b[39] == 168 && b[40] == 0 {
						t = int(b[41])
					}
				}
				targets = append(targets, t)
			case <-time.After(250 * time.Millisecond):
				stop = true
			}
			if stop {
				break
			}
		}
	}
	err := c.cmd.RunE(c.cmd, []string{"192.168.0.0/29"})
	wireProbe = nil
	verifAssert(err == nil, "command failed before the engine start")
	per := len(allowed)
	if live {
		verifCover("live")
		verifAssert(len(targets) >= passes*per, "live mode: passes stopped coming")
		verifAssert(!closed, "live mode: the stream ended without cancellation")
	} else {
		verifCover("single-pass")
		verifAssert(len(targets) == per, "a pass does not carry exactly one probe per target address (minus exclusions)")
		verifAssert(closed, "the stream did not end after the single pass")
	}
	for p := 0; p < passes && (p+1)*per <= len(targets); p++ {
		seen := map[byte]bool{}
		for _, t := range targets[p*per : (p+1)*per] {
			verifAssert(t >= 0 && t < 8, "probe is not a well-formed ARP request for an address of the target subnet")
			if t >= 0 && t < 8 {
				verifAssert(allowed[byte(t)], "an excluded address was probed")
				verifAssert(!seen[byte(t)], "an address was probed twice in one pass (or a pass is incomplete)")
				seen[byte(t)] = true
			}
		}
	}
	verifCover("done")
}

// VerifH_C05_wireFields: the udp (CMD 1) and icmp (CMD 0) commands with solver-chosen parsed
// option values (TTL, IP flags incl. none, ICMP type/code, a payload of 0..2 bytes): RunE is
// interpreted up to the engine start and one probe is pulled out of the pipeline the command
// built (conf.scanMethod.Packets): the frame carries exactly the requested values.
func VerifH_C05_wireFields() {
	wireReset()
	wireRec, wirePerr = nil, nil
	udpCmd := verifParam("CMD", 0) == 1
	ttl, flags := ndU8("ttl"), ndU8("ipflags")&7
	typ, code := ndU8("icmpType"), ndU8("icmpCode")
	plen := int(verifConcretize(uint64(ndU8("payloadLen") % 3)))
	payload := ndBytes("payload", 2)[:plen]
	wireGateway = true
	defer func() { wireGateway = false }()
	wireSetUDP = func(o *udpCmdOpts) { o.ipTTL, o.ipFlags, o.udpPayload = ttl, flags, payload }
	wireSetICMP = func(o *icmpCmdOpts) {
		o.ipTTL, o.ipFlags, o.icmpType, o.icmpCode, o.icmpPayload = ttl, flags, typ, code, payload
	}
	var frames [][]byte
	wireProbe = func(conf *packetScanConfig) {
		ctx, cancel := context.WithCancel(context.Background())
		defer cancel()
		r := conf.scanRange
		r.DstSubnet = &net.IPNet{IP: net.IPv4(192, 168, 0, 7).To4(), Mask: net.CIDRMask(32, 32)}
		r.Ports = []*scan.PortRange{{StartPort: 53, EndPort: 53}}
		for p := range conf.scanMethod.Packets(ctx, &r) {
			verifAssert(p.Err == nil && p.Buf != nil, "probe could not be built")
			if p.Err == nil && p.Buf != nil {
				frames = append(frames, append([]byte{}, p.Buf.Bytes()...))
			}
		}
	}
	var err error
	if udpCmd {
		c := newUDPCmd()
		err = c.cmd.RunE(c.cmd, nil)
	} else {
		c := newICMPCmd()
		err = c.cmd.RunE(c.cmd, nil)
	}
	wireProbe, wireSetUDP, wireSetICMP = nil, nil, nil
	verifAssert(err == nil, "command failed before the engine start")
	verifAssert(len(frames) == 1, "a single-address (single-port) target does not yield exactly one probe")
	if len(frames) != 1 {
		return
	}
	b := frames[0]
	off := 14
	if wireVPN {
		off = 0
	}
	verifAssert(len(b) >= off+28, "probe shorter than its headers")
	if len(b) < off+28 {
		return
	}
	verifAssert(b[off+8] == ttl, "--ttl does not reach the probe")
	verifAssert(b[off+6]>>5 == flags, "--ipflags does not reach the probe exactly (an empty list means no flag)")
	verifAssert(b[off+16] == 192 && b[off+17] == 168 && b[off+18] == 0 && b[off+19] == 7, "probe not addressed to the target")
	if !wireVPN {
		verifAssert(b[0] == 0x10 && b[5] == 0x15 && b[12] == 0x08 && b[13] == 0, "probe not sent to the gateway MAC as an IPv4 frame")
	}
	t := off + 20
	if udpCmd {
		verifAssert(b[off+9] == 17 && b[t+2] == 0 && b[t+3] == 53, "not a UDP probe to the requested port")
	} else {
		verifAssert(b[off+9] == 1 && b[t] == typ && b[t+1] == code, "--type/--code do not reach the probe")
	}
	verifAssert(len(b) >= t+8+plen, "payload missing")
	for i := 0; i < plen && t+8+i < len(b); i++ {
		verifAssert(b[t+8+i] == payload[i], "payload bytes are not the requested ones")
	}
	verifCover("done")
}

// VerifH_C05_wireTCPProbe: the fin / null / xmas / flags commands (CMD 0..3): one probe pulled from
// the pipeline the command built carries exactly the flag set of that scan (FIN; none;
// FIN+PSH+URG; the parsed --flags list), the target address and port, both link modes.
func VerifH_C05_wireTCPProbe() {
	wireReset()
	wireRec, wirePerr = nil, nil
	wireGateway = true
	defer func() { wireGateway = false }()
	var frames [][]byte
	wireProbe = func(conf *packetScanConfig) {
		ctx, cancel := context.WithCancel(context.Background())
		defer cancel()
		r := conf.scanRange
		r.DstSubnet = &net.IPNet{IP: net.IPv4(192, 168, 0, 7).To4(), Mask: net.CIDRMask(32, 32)}
		r.Ports = []*scan.PortRange{{StartPort: 8443, EndPort: 8443}}
		for p := range conf.scanMethod.Packets(ctx, &r) {
			verifAssert(p.Err == nil && p.Buf != nil, "probe could not be built")
			if p.Err == nil && p.Buf != nil {
				frames = append(frames, append([]byte{}, p.Buf.Bytes()...))
			}
		}
	}
	var err error
	var want byte
	switch verifParam("CMD", 0) {
	case 0:
		c := newTCPFINCmd()
		err, want = c.cmd.RunE(c.cmd, nil), 0x01
	case 1:
		c := newTCPNULLCmd()
		err, want = c.cmd.RunE(c.cmd, nil), 0x00
	case 2:
		c := newTCPXmasCmd()
		err, want = c.cmd.RunE(c.cmd, nil), 0x29
	case 3:
		c := newTCPFlagsCmd()
		err, want = c.cmd.RunE(c.cmd, nil), 0x11 // the parse seam leaves --flags fin,ack
	}
	wireProbe = nil
	verifAssert(err == nil, "command failed before the engine start")
	verifAssert(len(frames) == 1, "a single-address single-port target does not yield exactly one probe")
	if len(frames) != 1 {
		return
	}
	b := frames[0]
	off := 14
	if wireVPN {
		off = 0
	}
	verifAssert(len(b) >= off+40, "probe shorter than its headers")
	if len(b) < off+40 {
		return
	}
	t := off + 20
	verifAssert(b[off+9] == 6 && b[off+16] == 192 && b[off+19] == 7 && int(b[t+2])<<8|int(b[t+3]) == 8443, "not a TCP probe to the target address and port")
	verifAssert(b[t+13] == want && b[t+12]&1 == 0, "the probe does not carry exactly the TCP flags of this scan")
	verifCover("done")
}
