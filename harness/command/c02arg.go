package command

import (
	"net"

	"github.com/v-byte-cpu/sx/pkg/ip"
)

var c02Args = []string{"10.0.0.0/24", "192.168.1.7", "::1", "fe80::/64", "::ffff:10.0.0.0/120", "10.0.0.0/33", "10.0.0", "x"}

// VerifH_C02_targetArg: both copies of parseDstSubnet (packet and generic commands): a positional
// target is parsed - and an invalid one refused - whether or not a target file (-f) is given as
// well; without a positional target a file is required.
func VerifH_C02_targetArg() {
	withFile := ndBool("targetFile")
	withArg := ndBool("positionalTarget")
	k := ndU8("which")
	verifAssume(int(k) < len(c02Args))
	arg := c02Args[verifConcretize(uint64(k))]
	var args []string
	if withArg {
		args = []string{arg}
	}
	file := ""
	if withFile {
		file = "targets.jsonl"
	}
	var got *net.IPNet
	var err error
	if verifParam("GENERIC", 0) == 1 {
		o := &genericScanCmdOpts{ipFile: file}
		got, err = o.parseDstSubnet(args)
	} else {
		o := &ipScanCmdOpts{ipFile: file}
		got, err = o.parseDstSubnet(args)
	}
	switch {
	case withArg:
		want, werr := ip.ParseIPNet(arg)
		verifAssert((err != nil) == (werr != nil), "a positional target is not validated (an invalid one must be refused also when -f is given)")
		if werr == nil && err == nil {
			verifAssert(got != nil && got.String() == want.String(), "the positional target is not the one used")
		}
		if werr != nil {
			verifCover("refused")
		}
	case withFile:
		verifAssert(err == nil && got == nil, "a target file alone must be accepted without a subnet")
	default:
		verifAssert(err != nil, "a scan without any target must be refused")
	}
	verifCover("done")
}
