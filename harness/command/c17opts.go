package command

import (
	"io"
	"net"

	"github.com/v-byte-cpu/sx/command/log"
	"github.com/v-byte-cpu/sx/pkg/scan"
	"github.com/v-byte-cpu/sx/pkg/scan/arp"
)

var (
	c17oRange     *scan.Range
	c17oCacheN    int
	c17oGwN       int
	c17oCache     *arp.Cache
	c17oGwIface   *net.Interface
	c17oGwCache   *arp.Cache
	c17oRangeArg  *net.IPNet
	c17oRangeN    int
	c17oGatewayMA = net.HardwareAddr{2, 0, 0, 0, 0, 0xd}
)

func verifSeam_optsScanRange(o *ipScanCmdOpts, dst *net.IPNet) (*scan.Range, error) {
	c17oRangeN++
	c17oRangeArg = dst
	return c17oRange, nil
}
func verifSeam_optsLogger(o *ipScanCmdOpts, name string, w io.Writer) (log.Logger, error) {
	return wireLogger, nil
}
func verifSeam_optsCache(o *ipScanCmdOpts) (*arp.Cache, error) {
	c17oCacheN++
	return c17oCache, nil
}
func verifSeam_optsGwMAC(o *ipScanCmdOpts, iface *net.Interface, cache *arp.Cache) (net.HardwareAddr, error) {
	c17oGwN++
	c17oGwIface, c17oGwCache = iface, cache
	return c17oGatewayMA, nil
}

// VerifH_C17_parseOptions: the real ipScanCmdOpts.parseOptions around the selected range: raw-IP
// (VPN) framing exactly when the source has no hardware address; only then the ARP cache and the
// gateway MAC are skipped; otherwise the cache is parsed once and the gateway MAC is looked up for
// the selected interface with that cache.
func VerifH_C17_parseOptions() {
	iface := &net.Interface{Index: 7, Name: "eth7"}
	c17oRange = &scan.Range{Interface: iface, SrcIP: net.IPv4(10, 0, 0, 3).To4()}
	hasMAC := ndBool("sourceHasMAC")
	if hasMAC {
		n := int(verifConcretize(uint64(ndU8("macLen") % 3)))
		c17oRange.SrcMAC = []net.HardwareAddr{{0, 1, 2, 3, 4, 5}, {0, 1, 2, 3, 4, 5, 6, 7}, {0, 0, 0, 0, 0, 0}}[n]
	}
	c17oCache = arp.NewCache()
	c17oCacheN, c17oGwN, c17oRangeN, c17oGwIface, c17oGwCache = 0, 0, 0, nil, nil
	o := &ipScanCmdOpts{}
	err := o.parseOptions("tcp", []string{"10.0.0.0/24"})
	verifAssert(err == nil, "options refused")
	verifAssert(c17oRangeN == 1 && c17oRangeArg != nil && c17oRangeArg.String() == "10.0.0.0/24", "the target argument does not reach the interface selection exactly once")
	verifAssert(o.scanRange == c17oRange, "the selected range is not the one the scan uses")
	verifAssert(o.vpnMode == !hasMAC, "raw-IP (VPN) framing not selected exactly when the source interface has no hardware address")
	if hasMAC {
		verifCover("ethernet")
		verifAssert(c17oCacheN == 1 && o.cache == c17oCache, "ARP cache not parsed exactly once for an Ethernet scan")
		verifAssert(c17oGwN == 1 && c17oGwIface == iface && c17oGwCache == c17oCache, "gateway MAC not looked up for the selected interface with the parsed cache")
		verifAssert(c17Same(o.gatewayMAC, c17oGatewayMA), "the looked-up gateway MAC is not the one the scan uses")
	} else {
		verifCover("raw-ip")
		verifAssert(c17oCacheN == 0 && c17oGwN == 0, "ARP cache or gateway MAC consulted in raw-IP mode (stdin would be consumed)")
	}
}
