package command

import (
	"net"

	"github.com/vishvananda/netlink"

	"github.com/v-byte-cpu/sx/pkg/ip"
	"github.com/v-byte-cpu/sx/pkg/scan/arp"
)

// VerifH_C11_gatewayMAC: which MAC do probes for hosts that are not in the ARP cache go to?  A host
// with two routes (default or not, any metric, either link, with or without gateway address), an
// ARP cache holding the two gateway addresses, an optional --gwmac: the result is --gwmac if given,
// else the cache entry of the gateway of the lowest-metric default route ON THE SCAN INTERFACE,
// else none (such probes then become errors) - never the entry of another address.
func VerifH_C11_gatewayMAC() {
	ip.VerifHost.Ifaces = []ip.VerifIface{{Iface: net.Interface{Index: 1, Name: "eth0"}}, {Iface: net.Interface{Index: 2, Name: "eth1"}}}
	var routes []netlink.Route
	var def, hasGw [2]bool
	var metric, link [2]int
	gws := [2][]byte{ndBytes("gw0", 4), ndBytes("gw1", 4)}
	for k := 0; k < 2; k++ {
		def[k], hasGw[k] = ndBool("routeIsDefault"), ndBool("routeHasGateway")
		metric[k] = int(ndU8("metric"))
		link[k] = 1 + int(verifConcretize(uint64(ndU8("link")&1)))
		rt := netlink.Route{LinkIndex: link[k], Priority: metric[k]}
		if hasGw[k] {
			rt.Gw = net.IPv4(gws[k][0], gws[k][1], gws[k][2], gws[k][3])
		}
		if !def[k] {
			rt.Dst = &net.IPNet{IP: net.IPv4(172, 16, 0, 0).To4(), Mask: net.CIDRMask(12, 32)}
		}
		routes = append(routes, rt)
	}
	ip.VerifHost.Routes = routes
	ip.VerifHost.Routes6 = []netlink.Route{{LinkIndex: 1, Priority: 0, Gw: net.ParseIP("fe80::1")}, {LinkIndex: 2, Priority: 0, Gw: net.ParseIP("fe80::2")}}
	cache := arp.NewCache()
	macs := [2]net.HardwareAddr{{2, 0, 0, 0, 0, 0xa}, {2, 0, 0, 0, 0, 0xb}}
	// the two gateway addresses differ (otherwise the cache has one entry for both)
	verifAssume(gws[0][0] != gws[1][0] || gws[0][1] != gws[1][1] || gws[0][2] != gws[1][2] || gws[0][3] != gws[1][3])
	verifAssume(gws[0][0] != 10 && gws[1][0] != 10) // 10.99.99.99 is the unrelated third entry
	cache.Put(net.IP(gws[0]), macs[0])
	cache.Put(net.IP(gws[1]), macs[1])
	cache.Put(net.IPv4(10, 99, 99, 99).To4(), net.HardwareAddr{2, 0, 0, 0, 0, 0xc})
	o := &ipScanCmdOpts{}
	flag := ndBool("gwmacFlag")
	fmac := net.HardwareAddr{2, 0, 0, 0, 0, 0xf}
	if flag {
		o.gatewayMAC = fmac
	}
	ifaceIdx := 1 + int(verifConcretize(uint64(ndU8("scanInterface")&1)))
	got, err := o.getGatewayMAC(&net.Interface{Index: ifaceIdx}, cache)
	verifAssert(err == nil, "gateway lookup failed on a readable routing table")
	// reference
	best := -1
	for k := 0; k < 2; k++ {
		if def[k] && link[k] == ifaceIdx && (best < 0 || metric[k] < metric[best]) {
			best = k
		}
	}
	switch {
	case flag:
		verifCover("flag")
		verifAssert(c17Same(got, fmac), "--gwmac does not override the looked-up gateway MAC")
	case best >= 0 && hasGw[best]:
		verifCover("cache")
		verifAssert(c17Same(got, macs[best]), "gateway MAC is not the ARP-cache entry of the scan interface's lowest-metric default gateway")
	default:
		verifCover("none")
		verifAssert(got == nil, "a gateway MAC was invented although the scan interface has no default gateway (or none with an address)")
	}
}
