package command

import (
	"context"
	"errors"
	"fmt"
	"time"

	"github.com/v-byte-cpu/sx/pkg/scan"
)

// ---- a scripted engine behind the real startScanEngine ----

type c16Result struct{ id int }

func (r *c16Result) String() string               { return fmt.Sprint("r", r.id) }
func (r *c16Result) ID() string                   { return fmt.Sprint("r", r.id) }
func (r *c16Result) MarshalJSON() ([]byte, error) { return []byte(fmt.Sprint(r.id)), nil }

type c16Engine struct {
	results    scan.ResultChan
	early      int           // results emitted while probing
	sendDur    time.Duration // duration of the probing phase
	late       []time.Duration
	errs       int  // errors reported while probing
	errcOnDone bool // generic engine: errc closes together with done; packet engine: on cancel
	doneAt     int64
	putAt      []int64
	started    bool
	stuck      bool
	lateErrEvery time.Duration // packet-style engines only: an error every so often after done
	lateErrs     int
}

func (e *c16Engine) Results() <-chan scan.Result { return e.results.Chan() }

func (e *c16Engine) Start(ctx context.Context, r *scan.Range) (<-chan interface{}, <-chan error) {
	e.started = true
	done := make(chan interface{})
	errc := make(chan error, 100)
	go func() {
		id := 0
		for i := 0; i < e.early; i++ {
			e.results.Put(&c16Result{id})
			e.putAt = append(e.putAt, verifNow())
			id++
		}
		for i := 0; i < e.errs; i++ {
			select {
			case errc <- errors.New("probe failed"):
			case <-ctx.Done():
			}
		}
		_ = errors.New
		alive := true
		sleep := func(d time.Duration) {
			if d <= 0 || !alive {
				return
			}
			select {
			case <-ctx.Done():
				alive = false
				if e.stuck {
					// a sender blocked in a write or in the rate limiter notices the cancellation late
					time.Sleep(3 * time.Second)
				}
			case <-time.After(d):
			}
		}
		sleep(e.sendDur)
		e.doneAt = verifNow()
		close(done)
		if e.errcOnDone {
			close(errc)
		}
		// replies that arrive after the last probe has left
		prev := time.Duration(0)
		for _, t := range e.late {
			sleep(t - prev)
			prev = t
			if !alive {
				break
			}
			e.results.Put(&c16Result{id})
			e.putAt = append(e.putAt, verifNow())
			id++
		}
	}()
	if !e.errcOnDone {
		// errors that keep arriving after the last probe has left (e.g. the interface went down and
		// the receiver reports a read error every few milliseconds)
		lateDone := make(chan struct{})
		go func() {
			defer close(lateDone)
			if e.lateErrEvery <= 0 {
				return
			}
			select {
			case <-done:
			case <-ctx.Done():
				return
			}
			for k := 0; k < 200; k++ {
				select {
				case <-ctx.Done():
					return
				case <-time.After(e.lateErrEvery):
				}
				select {
				case errc <- errors.New("read failed"):
					e.lateErrs++
				case <-ctx.Done():
					return
				}
			}
		}()
		// packet engine: the error merger ends on cancellation, whatever the sender does
		go func() {
			<-ctx.Done()
			<-lateDone
			close(errc)
		}()
	}
	return done, errc
}

type c16Logger struct {
	got     []int
	gotAt   []int64
	errs    int
	perItem time.Duration // a slow consumer
}

func (l *c16Logger) Error(err error) { l.errs++ }

func (l *c16Logger) LogResults(ctx context.Context, results <-chan scan.Result) {
	for {
		select {
		case <-ctx.Done():
			return
		case r, ok := <-results:
			if !ok {
				return
			}
			if l.perItem > 0 {
				time.Sleep(l.perItem)
			}
			l.got = append(l.got, r.(*c16Result).id)
			l.gotAt = append(l.gotAt, verifNow())
		}
	}
}

func c16Pick(label string, vals ...time.Duration) time.Duration {
	k := ndU8(label)
	verifAssume(int(k) < len(vals))
	return vals[verifConcretize(uint64(k))]
}

// VerifH_C16_exitDelay: exit delay E; probing phase of any listed duration (shorter, equal,
// longer than E); a reply arriving t < E after the last probe; generic and packet style engines.
func VerifH_C16_exitDelay() {
	E := c16Pick("exitDelay", 300*time.Millisecond, time.Millisecond, 90*time.Millisecond, 250*time.Millisecond, time.Second, 1250*time.Millisecond)
	verifNow() // start of the harness clock
	ctx, cancel := context.WithCancel(context.Background())
	defer cancel()
	eng := &c16Engine{results: scan.NewResultChan(ctx, 1000)}
	eng.early = int(verifConcretize(uint64(ndU8("early") & 1)))
	eng.errs = int(verifConcretize(uint64(ndU8("errs") & 1)))
	eng.sendDur = c16Pick("sendDur", 0, 100*time.Millisecond, E, 5*E)
	t := c16Pick("latency", 0, time.Millisecond, E-time.Millisecond)
	eng.late = []time.Duration{t}
	eng.errcOnDone = ndBool("errcClosesWithDone")
	if !eng.errcOnDone && ndBool("errorsKeepComing") {
		eng.lateErrEvery = E / 5 // more often than the delay is long
	}
	lg := &c16Logger{}
	conf := newEngineConfig(withLogger(lg), withScanRange(&scan.Range{}), withExitDelay(E))
	err := startScanEngine(ctx, eng, conf)
	ret := verifNow()
	verifAssert(err == nil, "scan call failed")
	verifAssert(eng.started, "engine never started")
	want := eng.early + 1
	verifAssert(len(lg.got) == want, "a result detected before the exit delay ran out was not logged (or was logged twice)")
	for i := range lg.got {
		if i < want {
			verifAssert(lg.got[i] == i, "results logged out of order")
		}
	}
	verifAssert(ret >= eng.doneAt+int64(E), "the scan call returned before the exit delay had elapsed after the last probe")
	verifAssert(ret <= eng.doneAt+int64(E)+int64(time.Millisecond), "the scan call did not return when the exit delay was over")
	verifAssert(lg.errs >= eng.errs && lg.errs <= eng.errs+eng.lateErrs, "errors not reported exactly once")
	verifCover("done")
}

// VerifH_C16_default: the exit delay of a configuration that does not set one is 300 ms.
func VerifH_C16_default() {
	conf := newEngineConfig()
	verifAssert(conf.exitDelay == 300*time.Millisecond, "default exit delay is not 300ms")
	d := time.Duration(ndU32("d"))
	conf = newEngineConfig(withExitDelay(d))
	verifAssert(conf.exitDelay == d, "withExitDelay does not reach the configuration")
	pc := newPacketScanConfig(withPacketEngineConfig(conf))
	verifAssert(pc.exitDelay == d, "exit delay lost in the packet scan configuration")
	verifCover("done")
}

// VerifH_C12_cancelScan: the parent context is cancelled at any of the listed instants of a
// running scan (before the first probe, while probing, at completion, during the exit delay),
// with a fast or a slow result consumer: the scan call returns, nothing panics.
func VerifH_C12_cancelScan() {
	// the exit delay is long (3 s): every cancel instant below falls before the first probe, while
	// probing, or inside the exit delay - the call must not sit the delay out
	E := c16Pick("exitDelay", 300*time.Millisecond, 3*time.Second)
	verifNow() // start of the harness clock
	ctx, cancel := context.WithCancel(context.Background())
	eng := &c16Engine{results: scan.NewResultChan(ctx, 1000)}
	eng.early = int(verifConcretize(uint64(ndU8("early") % 3)))
	eng.errs = int(verifConcretize(uint64(ndU8("errs") % 3)))
	eng.sendDur = c16Pick("sendDur", 10*time.Millisecond, 100*time.Millisecond) // never at the very instant of a cancel
	eng.late = []time.Duration{time.Millisecond}
	eng.errcOnDone = ndBool("errcClosesWithDone")
	eng.stuck = !eng.errcOnDone && ndBool("senderStuck")
	lg := &c16Logger{perItem: c16Pick("consumer", 0, 50*time.Millisecond)}
	at := c16Pick("cancelAt", 0, time.Nanosecond, 50*time.Millisecond, 100*time.Millisecond+500*time.Microsecond, 200*time.Millisecond)
	go func() {
		if at > 0 {
			time.Sleep(at)
		}
		cancel()
	}()
	conf := newEngineConfig(withLogger(lg), withScanRange(&scan.Range{}), withExitDelay(E))
	err := startScanEngine(ctx, eng, conf)
	ret := verifNow()
	verifAssert(err == nil, "scan call failed")
	verifAssert(ret <= int64(at)+int64(100*time.Millisecond), "the scan call did not return promptly after cancellation")
	for i := range lg.got {
		verifAssert(lg.got[i] == i, "results logged out of order or twice")
	}
	verifCover("done")
}
