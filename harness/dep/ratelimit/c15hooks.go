package PKG

// Support file overlaid into go.uber.org/ratelimit (the version /repo's go.mod selects):
// read/write access to the private state of the limiter sx constructs with ratelimit.New,
// so that one Take can be run from an arbitrary valid state.

import (
	"sync/atomic"
	"time"
	"unsafe"
)

func VerifSetState(l Limiter, last time.Time, sleepFor time.Duration) {
	a := l.(*atomicLimiter)
	st := state{last: last, sleepFor: sleepFor}
	atomic.StorePointer(&a.state, unsafe.Pointer(&st))
}

func VerifGetState(l Limiter) (time.Time, time.Duration) {
	a := l.(*atomicLimiter)
	st := (*state)(atomic.LoadPointer(&a.state))
	return st.last, st.sleepFor
}

func VerifParams(l Limiter) (perRequest, maxSlack time.Duration) {
	a := l.(*atomicLimiter)
	return a.perRequest, a.maxSlack
}
