package client

// VerifTarget exposes where a Client was configured to connect (support file for C10.docker).
func VerifTarget(c *Client) (scheme, host, proto, addr string) { return c.scheme, c.host, c.proto, c.addr }
