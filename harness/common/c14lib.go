package PKG

import "unicode/utf8"

// Reference reader for the one-line JSON objects the scans print (C14): a flat object whose
// values are strings, numbers, booleans or one nested flat object; strings are un-escaped.

type c14KV struct {
	key   string
	str   []byte // un-escaped string value (isStr)
	raw   []byte // raw token for numbers / booleans / nested objects
	isStr bool
}

func c14Hex(c byte) (byte, bool) {
	switch {
	case c >= '0' && c <= '9':
		return c - '0', true
	case c >= 'a' && c <= 'f':
		return c - 'a' + 10, true
	case c >= 'A' && c <= 'F':
		return c - 'A' + 10, true
	}
	return 0, false
}

// c14String reads a JSON string starting at b[i] == '"'; returns the un-escaped bytes and the
// index after the closing quote.  Raw control characters, and escapes outside RFC 8259, are errors.
func c14String(b []byte, i int) ([]byte, int, bool) {
	if i >= len(b) || b[i] != '"' {
		return nil, i, false
	}
	i++
	var out []byte
	for i < len(b) {
		c := b[i]
		switch {
		case c == '"':
			return out, i + 1, true
		case c < 0x20:
			return nil, i, false
		case c == '\\':
			if i+1 >= len(b) {
				return nil, i, false
			}
			e := b[i+1]
			i += 2
			switch e {
			case '"', '\\', '/':
				out = append(out, e)
			case 'b':
				out = append(out, 8)
			case 'f':
				out = append(out, 12)
			case 'n':
				out = append(out, 10)
			case 'r':
				out = append(out, 13)
			case 't':
				out = append(out, 9)
			case 'u':
				if i+4 > len(b) {
					return nil, i, false
				}
				var v uint16
				for k := 0; k < 4; k++ {
					h, ok := c14Hex(b[i+k])
					if !ok {
						return nil, i, false
					}
					v = v<<4 | uint16(h)
				}
				i += 4
				if v >= 0x80 {
					out = utf8.AppendRune(out, rune(v))
				} else {
					out = append(out, byte(v))
				}
			default:
				return nil, i, false
			}
		default:
			out = append(out, c)
			i++
		}
	}
	return nil, i, false
}

// c14Object reads `{"k":v,...}` (v: string, or a raw token up to the next top-level ',' or '}').
func c14Object(b []byte) ([]c14KV, bool) {
	if len(b) < 2 || b[0] != '{' || b[len(b)-1] != '}' {
		return nil, false
	}
	var out []c14KV
	i := 1
	for i < len(b)-1 {
		k, j, ok := c14String(b, i)
		if !ok || j >= len(b) || b[j] != ':' {
			return nil, false
		}
		i = j + 1
		kv := c14KV{key: string(k)}
		if b[i] == '"' {
			s, j, ok := c14String(b, i)
			if !ok {
				return nil, false
			}
			kv.str, kv.isStr = s, true
			i = j
		} else {
			depth := 0
			j := i
			for j < len(b)-1 {
				if b[j] == '{' {
					depth++
				} else if b[j] == '}' {
					depth--
				} else if b[j] == ',' && depth == 0 {
					break
				}
				j++
			}
			kv.raw = b[i:j]
			i = j
		}
		out = append(out, kv)
		if i < len(b)-1 {
			if b[i] != ',' {
				return nil, false
			}
			i++
		}
	}
	return out, true
}

func c14SameBytes(a, b []byte) bool {
	if len(a) != len(b) {
		return false
	}
	ok := true
	for i := range a {
		ok = verifAnd(ok, a[i] == b[i])
	}
	return ok
}

func c14ASCII(label string, n int) []byte {
	b := ndBytes(label, n)
	if verifParam("NONASCII", 0) == 1 {
		return b // any byte: invalid UTF-8 must come back as U+FFFD (see c14Expect)
	}
	for _, c := range b {
		verifAssume(c < 0x80)
	}
	return b
}

// c14Expect: what a JSON reader gets back for the string s: s itself when it is valid UTF-8;
// a single byte >= 0x80 (never valid on its own) reads back as U+FFFD.
func c14Expect(s []byte) []byte {
	if len(s) == 1 && verifParam("NONASCII", 0) == 1 {
		if s[0] >= 0x80 {
			return []byte{0xef, 0xbf, 0xbd}
		}
	}
	return s
}
