package PKG

import (
	"net"

	"github.com/google/gopacket/layers"
	"github.com/google/gopacket/pcap"
)

// target subnets (run parameter SUBNET); the first is the one of the quick tier
var c03Subnets = []func() *net.IPNet{
	func() *net.IPNet { return &net.IPNet{IP: net.IPv4(192, 168, 0, 0).To4(), Mask: net.CIDRMask(24, 32)} },
	func() *net.IPNet { return &net.IPNet{IP: net.IPv4(10, 0, 0, 0).To4(), Mask: net.CIDRMask(8, 32)} },
	func() *net.IPNet { return &net.IPNet{IP: net.IPv4(192, 168, 0, 128).To4(), Mask: net.CIDRMask(25, 32)} },
	func() *net.IPNet { return &net.IPNet{IP: net.IPv4(192, 168, 0, 77).To4(), Mask: net.CIDRMask(32, 32)} },
	func() *net.IPNet { return &net.IPNet{IP: net.IPv4(0, 0, 0, 0).To4(), Mask: net.CIDRMask(0, 32)} },
	func() *net.IPNet { return &net.IPNet{IP: net.IPv4(172, 16, 0, 0).To4(), Mask: net.CIDRMask(12, 32)} },
}

func c03InNet(src []byte, n *net.IPNet) bool {
	ok := true
	for i := 0; i < 4; i++ {
		ok = verifAnd(ok, src[i]&n.Mask[i] == n.IP[i])
	}
	return ok
}

// c03Compile compiles a filter expression with libpcap exactly as afpacket.Source.SetBPFFilter does.
func c03Compile(vpn bool, snaplen int, expr string) ([]pcap.BPFInstruction, error) {
	lt := layers.LinkTypeEthernet
	if vpn {
		lt = layers.LinkTypeIPv4
	}
	return pcap.CompileBPFFilter(lt, snaplen, expr)
}

// c03RunBPF executes a classic-BPF program (the loop-free programs libpcap emits for the
// filters of this project) on a frame; an out-of-range load rejects the frame, as in the kernel.
func c03RunBPFLen(prog []pcap.BPFInstruction, pkt []byte) uint32 {
	var a, x uint32
	n := uint32(len(pkt))
	ld := func(off uint32, size uint32) (uint32, bool) {
		if off > n || size > n-off {
			return 0, false
		}
		var v uint32
		for i := uint32(0); i < size; i++ {
			v = v<<8 | uint32(pkt[off+i])
		}
		return v, true
	}
	for pc := 0; pc < len(prog); pc++ {
		ins := prog[pc]
		k := ins.K
		var ok bool
		switch ins.Code {
		case 0x20: // ld [k]
			if a, ok = ld(k, 4); !ok {
				return 0
			}
		case 0x28: // ldh [k]
			if a, ok = ld(k, 2); !ok {
				return 0
			}
		case 0x30: // ldb [k]
			if a, ok = ld(k, 1); !ok {
				return 0
			}
		case 0x40: // ld [x+k]
			if a, ok = ld(x+k, 4); !ok {
				return 0
			}
		case 0x48: // ldh [x+k]
			if a, ok = ld(x+k, 2); !ok {
				return 0
			}
		case 0x50: // ldb [x+k]
			if a, ok = ld(x+k, 1); !ok {
				return 0
			}
		case 0xb1: // ldxb 4*([k]&0xf)
			v, ok := ld(k, 1)
			if !ok {
				return 0
			}
			x = 4 * (v & 0xf)
		case 0x00: // ld #k
			a = k
		case 0x01: // ldx #k
			x = k
		case 0x54: // and #k
			a &= k
		case 0x15: // jeq #k
			if a == k {
				pc += int(ins.Jt)
			} else {
				pc += int(ins.Jf)
			}
		case 0x25: // jgt #k
			if a > k {
				pc += int(ins.Jt)
			} else {
				pc += int(ins.Jf)
			}
		case 0x35: // jge #k
			if a >= k {
				pc += int(ins.Jt)
			} else {
				pc += int(ins.Jf)
			}
		case 0x45: // jset #k
			if a&k != 0 {
				pc += int(ins.Jt)
			} else {
				pc += int(ins.Jf)
			}
		case 0x05: // ja
			pc += int(k)
		case 0x06: // ret #k
			return k
		case 0x16: // ret a
			return a
		default:
			verifAssert(false, "cBPF opcode outside the interpreter's set")
			return 0
		}
	}
	return 0
}

// c03RunBPF: does the filter accept the frame at all?
func c03RunBPF(prog []pcap.BPFInstruction, pkt []byte) bool { return c03RunBPFLen(prog, pkt) != 0 }

// c03Capture is what the socket hands to the processor: the frame cut to the length the filter
// returned (the snap length compiled into the program), nil when the filter drops it.
func c03Capture(prog []pcap.BPFInstruction, pkt []byte) ([]byte, bool) {
	acc := c03RunBPFLen(prog, pkt)
	if acc == 0 {
		return nil, false
	}
	n := int(verifConcretize(uint64(acc)))
	if n < len(pkt) {
		return pkt[:n:n], true
	}
	return pkt, true
}

// c03OptsOK: an option area (IPv4 or TCP) parses: kind 0 ends the list, kind 1 is one byte,
// every other kind carries a length byte >= minLen that stays inside the area (TCP: 2; IPv4: 3,
// the decoder library refuses data-less multi-byte IP options, and no assigned IP option has length 2).
func c03OptsOK(o []byte, minLen byte) bool {
	for i := 0; i < len(o); {
		switch o[i] {
		case 0:
			return true
		case 1:
			i++
		default:
			if i+1 >= len(o) || o[i+1] < minLen || i+int(o[i+1]) > len(o) {
				return false
			}
			i += int(o[i+1])
		}
	}
	return true
}

// c03WFIPv4 assumes that b (of LEN bytes) is a well-formed, unfragmented frame: Ethernet II with
// EtherType IPv4 (unless raw-IP mode), version 4, IHL 5..maxIHL with well-formed options, total
// length equal to the captured datagram length, no fragmentation.  Returns the IPv4 offset and IHL.
func c03WFIPv4(b []byte, vpn bool, maxIHL int) (off, ihl int) {
	if !vpn {
		off = 14
		verifAssume(len(b) >= 14 && b[12] == 0x08 && b[13] == 0x00)
	}
	verifAssume(len(b) >= off+20)
	verifAssume(b[off]>>4 == 4)
	h := b[off] & 0x0f
	verifAssume(h >= 5 && int(h) <= maxIHL && off+int(h)*4 <= len(b))
	verifAssume(int(h) >= verifParam("MINIHL", 5))
	ihl = int(verifConcretize(uint64(h)))
	if verifParam("RROPT", 0) == 1 && ihl > 5 {
		// long-header obligations: one Record Route option filling the option area but its last byte
		verifAssume(b[off+20] == 7 && int(b[off+21]) == ihl*4-21)
	}
	tot := len(b) - off
	verifAssume(b[off+2] == byte(tot>>8) && b[off+3] == byte(tot))
	verifAssume(b[off+6]&0x3f == 0 && b[off+7] == 0) // MF clear, fragment offset 0
	verifAssume(c03OptsOK(b[off+20:off+ihl*4], 3))
	return off, ihl
}
