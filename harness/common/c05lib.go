package PKG

// Shared reference helpers for the frame-layout oracles (C05); "package PKG" is replaced
// by the package under test when the file is overlaid.

var c05Rand []int

func verifSeam_Intn(n int) int {
	v := ndInt("rand.Intn")
	verifAssume(v >= 0 && v < n)
	c05Rand = append(c05Rand, v)
	return v
}

func verifSeam_Read(p []byte) (int, error) {
	for i := range p {
		p[i] = ndU8("rand.Read")
	}
	return len(p), nil
}

// c05Sum adds the big-endian 16-bit words of b (odd tail padded with a zero byte), RFC 1071.
func c05Sum(b []byte) uint32 {
	var s uint32
	for i := 0; i+1 < len(b); i += 2 {
		s += uint32(b[i])*256 + uint32(b[i+1])
	}
	if len(b)%2 == 1 {
		s += uint32(b[len(b)-1]) * 256
	}
	return s
}

// c05Fold adds the carries back in until none is left (end-around carry).
func c05Fold(s uint32) uint16 {
	for s > 0xffff {
		s = (s >> 16) + (s & 0xffff)
	}
	return uint16(s)
}

func c05U16(b []byte) uint16 { return uint16(b[0])<<8 | uint16(b[1]) }

func c05Eq(a, b []byte) bool {
	if len(a) != len(b) {
		return false
	}
	ok := true
	for i := range a {
		ok = verifAnd(ok, a[i] == b[i])
	}
	return ok
}

func c05AllZero(b []byte) bool {
	ok := true
	for _, c := range b {
		ok = verifAnd(ok, c == 0)
	}
	return ok
}

// c05Frame checks the link framing and returns the IPv4 datagram: Ethernet header with the
// requested MACs (frames shorter than 60 bytes are zero-padded after the datagram), or,
// in raw-IP mode, the bare datagram.
func c05Frame(b []byte, vpn bool, dgramLen int, smac, dmac []byte) []byte {
	if vpn {
		verifAssert(len(b) == dgramLen, "raw-IP frame is not exactly the datagram")
		if len(b) != dgramLen {
			return nil
		}
		return b
	}
	want := 14 + dgramLen
	if want < 60 {
		want = 60
	}
	verifAssert(len(b) == want, "Ethernet frame length is not 14 + datagram (zero-padded to 60)")
	if len(b) != want {
		return nil
	}
	verifAssert(c05Eq(b[0:6], dmac), "Ethernet destination is not the requested MAC")
	verifAssert(c05Eq(b[6:12], smac), "Ethernet source is not the requested MAC")
	verifAssert(b[12] == 0x08 && b[13] == 0x00, "EtherType is not IPv4")
	verifAssert(c05AllZero(b[14+dgramLen:]), "padding after the datagram is not zero")
	return b[14 : 14+dgramLen]
}

// c05IPHeader checks the fixed IPv4 header fields of d against the request.
func c05IPHeader(d []byte, totLen int, idDraw int, flags, ttl, proto uint8, src, dst []byte) {
	verifAssert(d[0] == 0x45, "IPv4 version/IHL is not 4/5")
	verifAssert(d[1] == 0, "TOS not zero")
	verifAssert(int(c05U16(d[2:4])) == totLen, "IPv4 total length wrong")
	verifAssert(int(c05U16(d[4:6])) == 1+idDraw && c05U16(d[4:6]) != 0, "IPv4 id is not the spoofed non-zero value")
	verifAssert(d[6] == flags<<5 && d[7] == 0, "IPv4 flags are not the requested flags / fragment offset not zero")
	verifAssert(d[8] == ttl, "TTL is not the requested TTL")
	verifAssert(d[9] == proto, "IPv4 protocol is not the requested protocol")
	verifAssert(c05Eq(d[12:16], src), "IPv4 source is not the requested address")
	verifAssert(c05Eq(d[16:20], dst), "IPv4 destination is not the requested address")
	hz := append([]byte{}, d[:20]...)
	hz[10], hz[11] = 0, 0
	verifAssert(c05U16(d[10:12]) == ^c05Fold(c05Sum(hz)), "IPv4 header checksum wrong")
}
