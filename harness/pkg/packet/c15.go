package packet

import (
	"errors"
	"time"

	"github.com/google/gopacket"
)

type c15Log struct{ ev []string }

type c15Limiter struct{ log *c15Log }

func (l *c15Limiter) Take() time.Time { l.log.ev = append(l.log.ev, "take"); return time.Time{} }

type c15RW struct {
	log       *c15Log
	readFails []bool
	reads     int
}

var errC15 = errors.New("read fault")

func (rw *c15RW) ReadPacketData() ([]byte, *gopacket.CaptureInfo, error) {
	rw.log.ev = append(rw.log.ev, "read")
	k := rw.reads
	rw.reads++
	if k < len(rw.readFails) && rw.readFails[k] {
		return nil, nil, errC15
	}
	return []byte{1}, &gopacket.CaptureInfo{}, nil
}

func (rw *c15RW) WritePacketData(pkt []byte) error {
	rw.log.ev = append(rw.log.ev, "write")
	return nil
}

// VerifH_C15_readWriter: any sequence of K reads (succeeding or failing) and writes through the
// rate-limited read-writer: exactly one Take immediately before every write, none for reads.
func VerifH_C15_readWriter() {
	K := verifParam("K", 4)
	lg := &c15Log{}
	inner := &c15RW{log: lg}
	rw := NewRateLimitReadWriter(inner, &c15Limiter{lg})
	var ops []bool
	for i := 0; i < K; i++ {
		isWrite := ndBool("isWrite")
		ops = append(ops, isWrite)
		inner.readFails = append(inner.readFails, ndBool("readFails"))
	}
	for _, w := range ops {
		if w {
			_ = rw.WritePacketData([]byte{7})
		} else {
			_, _, _ = rw.ReadPacketData()
		}
	}
	i := 0
	for _, w := range ops {
		if w {
			verifAssert(i+1 < len(lg.ev) && lg.ev[i] == "take" && lg.ev[i+1] == "write", "a frame was written without being charged to the limiter exactly once, right before the write")
			i += 2
		} else {
			verifAssert(i < len(lg.ev) && lg.ev[i] == "read", "a read was charged to the limiter (receiving must never be slowed down)")
			i++
		}
	}
	verifAssert(i == len(lg.ev), "more limiter or wire operations than requested")
	verifCover("done")
}

type c15SlowLimiter struct{ d time.Duration }

func (l *c15SlowLimiter) Take() time.Time { time.Sleep(l.d); return time.Now() }

// VerifH_C15_readWhileWaiting: the sender is waiting in the limiter (a long Take) when the receiver
// reads: K reads issued during the wait complete at once (logical clock: at the instant they were
// issued), whatever the limiter is doing - receiving is never slowed by the rate limit.
func VerifH_C15_readWhileWaiting() {
	K := verifParam("K", 3)
	lg := &c15Log{}
	inner := &c15RW{log: lg}
	wait := time.Duration(1+int(verifConcretize(uint64(ndU8("waitSeconds")%3)))) * time.Second
	rw := NewRateLimitReadWriter(inner, &c15SlowLimiter{wait})
	start := time.Duration(verifNow())
	written := make(chan time.Duration, 1)
	go func() {
		_ = rw.WritePacketData([]byte{7})
		written <- time.Duration(verifNow()) - start
	}()
	verifYield()
	time.Sleep(10 * time.Millisecond) // the writer is inside Take now
	slack := time.Duration(0)
	if !verifSymbolic() {
		slack = 200 * time.Millisecond
	}
	for i := 0; i < K; i++ {
		t0 := time.Duration(verifNow())
		_, _, err := rw.ReadPacketData()
		verifAssert(err == nil, "read failed")
		verifAssert(time.Duration(verifNow())-t0 <= slack, "a read had to wait for the rate limiter (receiving slowed by the limit)")
	}
	w := <-written
	verifAssert(w >= wait-slack, "the write was not held back by the limiter")
	verifCover("done")
}
