package packet

import (
	"errors"
	"time"

	"github.com/google/gopacket"
)

type c15Log struct{ ev []string }

type c15Limiter struct{ log *c15Log }

func (l *c15Limiter) Take() time.Time { l.log.ev = append(l.log.ev, "take"); return time.Time{} }

type c15RW struct {
	log       *c15Log
	readFails []bool
	reads     int
}

var errC15 = errors.New("read fault")

func (rw *c15RW) ReadPacketData() ([]byte, *gopacket.CaptureInfo, error) {
	rw.log.ev = append(rw.log.ev, "read")
	k := rw.reads
	rw.reads++
	if k < len(rw.readFails) && rw.readFails[k] {
		return nil, nil, errC15
	}
	return []byte{1}, &gopacket.CaptureInfo{}, nil
}

func (rw *c15RW) WritePacketData(pkt []byte) error {
	rw.log.ev = append(rw.log.ev, "write")
	return nil
}

// VerifH_C15_readWriter: any sequence of K reads (succeeding or failing) and writes through the
// rate-limited read-writer: exactly one Take immediately before every write, none for reads.
func VerifH_C15_readWriter() {
	K := verifParam("K", 4)
	lg := &c15Log{}
	inner := &c15RW{log: lg}
	rw := NewRateLimitReadWriter(inner, &c15Limiter{lg})
	var ops []bool
	for i := 0; i < K; i++ {
		isWrite := ndBool("isWrite")
		ops = append(ops, isWrite)
		inner.readFails = append(inner.readFails, ndBool("readFails"))
	}
	for _, w := range ops {
		if w {
			_ = rw.WritePacketData([]byte{7})
		} else {
			_, _, _ = rw.ReadPacketData()
		}
	}
	i := 0
	for _, w := range ops {
		if w {
			verifAssert(i+1 < len(lg.ev) && lg.ev[i] == "take" && lg.ev[i+1] == "write", "a frame was written without being charged to the limiter exactly once, right before the write")
			i += 2
		} else {
			verifAssert(i < len(lg.ev) && lg.ev[i] == "read", "a read was charged to the limiter (receiving must never be slowed down)")
			i++
		}
	}
	verifAssert(i == len(lg.ev), "more limiter or wire operations than requested")
	verifCover("done")
}
