package packet

import (
	"time"

	"go.uber.org/ratelimit"
)

// c15Clock is the nondeterministic environment of the limiter: Now returns whatever instant
// the harness chose (non-decreasing), Sleep sleeps at least what was asked (plus an arbitrary
// overshoot).
type c15Clock struct {
	base   time.Time
	now    int64 // ns since base
	over   int64 // overshoot of the next Sleep
	reads  int
	sleeps int
	slept  int64
}

func (c *c15Clock) Now() time.Time { c.reads++; return c.base.Add(time.Duration(c.now)) }

func (c *c15Clock) Sleep(d time.Duration) {
	c.sleeps++
	if d > 0 {
		c.slept += int64(d)
		c.now += int64(d) + c.over
	}
}

const c15Burst = 10 // the library's default slack; sx passes no slack option (C15.wire* check the options)

// VerifH_C15_limiterStep: one Take of the real limiter sx builds (ratelimit.New(N, Per(W))) from
// an ARBITRARY valid state (last, sleepFor) at an arbitrary clock reading, plus a ghost anchor
// (an earlier probe c steps back).  Invariant: -burst*p <= sleepFor <= 0 and the virtual
// schedule E = last+sleepFor advances by at least p = W/N per Take; consequence asserted:
// the stamp of this probe is at least (c+1-burst)*p after the anchor's stamp, for every c -
// which is the k-consecutive-probes bound of the property by induction on c.
func VerifH_C15_limiterStep() {
	N := verifParam("N", 10)
	Wms := verifParam("WMS", 1000)
	W := time.Duration(Wms) * time.Millisecond
	clk := &c15Clock{base: time.Now()}
	l := ratelimit.New(N, ratelimit.Per(W), ratelimit.WithClock(clk))
	p, S := ratelimit.VerifParams(l)
	verifAssert(p == W/time.Duration(N), "per-request interval is W/N")
	verifAssert(S == -c15Burst*p, "slack is the default burst allowance")
	if p <= 0 {
		verifCover("degenerate")
		return
	}
	const horizon = int64(1) << 56 // ns; ~2 years of scanning
	last0 := int64(ndU64("last0"))
	d0 := int64(ndU64("sleepFor0"))
	now1 := int64(ndU64("now1"))
	over := int64(ndU64("overshoot"))
	verifAssume(last0 >= 1 && last0 < horizon)
	verifAssume(d0 >= int64(S) && d0 <= 0)          // representation invariant
	verifAssume(now1 >= last0 && now1 < horizon)    // clock contract: never behind the last stamp
	verifAssume(over >= 0 && over < horizon)
	// ghost anchor: an earlier probe, c Takes ago, stamped at aLast with debt aD
	c := int64(ndU32("c")) & (1<<20 - 1)
	aLast := int64(ndU64("anchorLast"))
	aD := int64(ndU64("anchorSleepFor"))
	verifAssume(aLast >= 0 && aLast <= last0)
	verifAssume(aD >= int64(S) && aD <= 0)
	verifAssume(c*int64(p) < horizon)
	verifAssume(last0+d0 >= aLast+aD+c*int64(p)) // ghost invariant G(c)

	ratelimit.VerifSetState(l, clk.base.Add(time.Duration(last0)), time.Duration(d0))
	clk.now, clk.over = now1, over
	got := l.Take()
	lastT, d1 := ratelimit.VerifGetState(l)
	last1 := int64(lastT.Sub(clk.base))
	verifAssert(int64(got.Sub(clk.base)) == last1, "Take returns the stamp it stored")
	verifAssert(int64(d1) >= int64(S) && d1 <= 0, "sleepFor stays within [-burst*p, 0]")
	verifAssert(last1+int64(d1) >= last0+d0+int64(p), "virtual schedule advances by at least W/N")
	verifAssert(last1 >= now1, "stamp is not before the clock reading")
	verifAssert(clk.reads == 1, "clock read once")
	verifAssert(clk.slept == last1-now1, "sleeps exactly until the stamp")
	verifAssert(clk.now >= last1, "Take returns no earlier than its stamp")
	// the property's bound, relative to the anchor
	verifAssert(last1-aLast >= (c+1-c15Burst)*int64(p), "k consecutive probes take at least (k-1-b)*W/N")
	// and G(c+1) holds again
	verifAssert(last1+int64(d1) >= aLast+aD+(c+1)*int64(p), "ghost invariant re-established")
	if clk.sleeps > 0 && clk.slept > 0 {
		verifCover("slept")
	} else if int64(d1) == int64(S) {
		verifCover("clamped")
	} else {
		verifCover("free")
	}
}

// VerifH_C15_limiterFirst: the very first Take (zero state) is let through at once and
// establishes the invariant.
func VerifH_C15_limiterFirst() {
	N := verifParam("N", 10)
	Wms := verifParam("WMS", 1000)
	W := time.Duration(Wms) * time.Millisecond
	clk := &c15Clock{base: time.Now()}
	l := ratelimit.New(N, ratelimit.Per(W), ratelimit.WithClock(clk))
	_, S := ratelimit.VerifParams(l)
	now1 := int64(ndU64("now1"))
	verifAssume(now1 >= 1 && now1 < int64(1)<<56)
	clk.now = now1
	got := l.Take()
	lastT, d1 := ratelimit.VerifGetState(l)
	verifAssert(int64(got.Sub(clk.base)) == now1, "first probe stamped now")
	verifAssert(int64(lastT.Sub(clk.base)) == now1, "state holds the stamp")
	verifAssert(d1 == 0 && d1 >= S, "no debt after the first probe")
	verifAssert(clk.slept == 0, "first probe does not sleep")
	verifCover("first")
}
