package packet

import (
	"context"
	"errors"
	"fmt"
	"io"
	"net"
	"syscall"
	"time"

	"github.com/google/gopacket"
)

// outcome classes of one read
const (
	c20Frame = iota
	c20FrameProcErr
	c20EAGAIN
	c20WrappedEAGAIN
	c20Timeout
	c20ConnReset
	c20OpErrReset
	c20Unknown
	c20EOF
	c20EBADF
	c20ClosedFile
	c20UnexpectedEOF
	c20EmptyFrame // a successfully read frame of length 0 (empty or nil data): still a frame
	c20Aggregate // an unknown failure whose error type is not comparable (a slice of errors)
	c20NumClasses
)

type c20Multi []error

func (m c20Multi) Error() string { return "several failures" }

type c20TimeoutErr struct{}

func (c20TimeoutErr) Error() string   { return "i/o timeout" }
func (c20TimeoutErr) Timeout() bool   { return true }
func (c20TimeoutErr) Temporary() bool { return true }

type c20Err struct{ i int }

func (e *c20Err) Error() string { return fmt.Sprintf("unknown failure %d", e.i) }

type c20Reader struct {
	K        int
	calls    int
	cancelAt int
	cancel   func()
	classes  []int
	errs     []error // the error object returned by call i (nil for frames)
}

func (r *c20Reader) ReadPacketData() ([]byte, *gopacket.CaptureInfo, error) {
	i := r.calls
	r.calls++
	if i+1 == r.cancelAt {
		r.cancel()
	}
	if i >= r.K {
		r.classes = append(r.classes, c20EOF)
		r.errs = append(r.errs, io.EOF)
		return nil, nil, io.EOF
	}
	c := ndU8("class")
	verifAssume(c < c20NumClasses)
	cls := int(verifConcretize(uint64(c)))
	r.classes = append(r.classes, cls)
	var err error
	switch cls {
	case c20Frame, c20FrameProcErr:
		r.errs = append(r.errs, nil)
		return []byte{byte(i)}, &gopacket.CaptureInfo{InterfaceIndex: i}, nil
	case c20EmptyFrame:
		r.errs = append(r.errs, nil)
		if i%2 == 1 {
			return nil, &gopacket.CaptureInfo{InterfaceIndex: i}, nil
		}
		return []byte{}, &gopacket.CaptureInfo{InterfaceIndex: i}, nil
	case c20EAGAIN:
		err = syscall.EAGAIN
	case c20WrappedEAGAIN:
		err = fmt.Errorf("read: %w", syscall.EAGAIN)
	case c20Timeout:
		err = c20TimeoutErr{}
	case c20ConnReset:
		err = syscall.ECONNRESET
	case c20OpErrReset:
		err = &net.OpError{Op: "read", Err: syscall.ECONNRESET}
	case c20Unknown:
		err = &c20Err{i}
	case c20EOF:
		err = io.EOF
	case c20EBADF:
		err = syscall.EBADF
	case c20ClosedFile:
		err = errors.New("read packet: use of closed file")
	case c20UnexpectedEOF:
		err = io.ErrUnexpectedEOF
	case c20Aggregate:
		err = c20Multi{&c20Err{i}, io.ErrShortWrite}
	}
	r.errs = append(r.errs, err)
	return nil, nil, err
}

type c20Proc struct {
	rd       *c20Reader
	kinds    bool // processor errors of solver-chosen kinds
	seen     []int
	procErrs []error
}

func (p *c20Proc) ProcessPacketData(data []byte, ci *gopacket.CaptureInfo) error {
	verifAssert(ci != nil, "processor got no capture info")
	if ci == nil {
		return nil
	}
	i := ci.InterfaceIndex
	if i >= 0 && i < len(p.rd.classes) && p.rd.classes[i] == c20EmptyFrame {
		verifAssert(len(data) == 0, "processor got something that is not the frame read")
	} else {
		verifAssert(len(data) == 1 && int(data[0]) == i, "processor got something that is not the frame read")
	}
	p.seen = append(p.seen, i)
	if p.rd.classes[i] == c20FrameProcErr {
		// the processor's own error may look like any read fault: it is still a processing error
		var e error = &c20Err{1000 + i}
		if p.kinds {
			k := ndU8("procErrKind")
			verifAssume(k < 8)
			switch verifConcretize(uint64(k)) {
			case 1:
				e = syscall.EAGAIN
			case 2:
				e = c20TimeoutErr{}
			case 3:
				e = &net.OpError{Op: "read", Err: syscall.ECONNRESET}
			case 4:
				e = io.EOF
			case 5:
				e = io.ErrUnexpectedEOF
			case 6:
				e = errors.New("read packet: use of closed file")
			case 7:
				e = syscall.EBADF
			}
			verifCover("proc-kind")
		}
		p.procErrs = append(p.procErrs, e)
		return e
	}
	return nil
}

// VerifH_C20_faults: every sequence of K read outcomes over the 12 classes, no cancellation.
func VerifH_C20_faults() {
	K := verifParam("K", 3)
	rd := &c20Reader{K: K, cancelAt: -1}
	pr := &c20Proc{rd: rd, kinds: verifParam("KINDS", 0) == 1}
	ctx, cancel := context.WithCancel(context.Background())
	defer cancel()
	rd.cancel = cancel
	errc := NewReceiver(rd, pr).ReceivePackets(ctx)
	var got []error
	for e := range errc {
		got = append(got, e)
	}
	verifCover("stream-closed")
	// oracle
	var wantSeen []int
	var wantErrs []error
	stopAt := -1
	pi := 0
	for i, cls := range rd.classes {
		switch cls {
		case c20Frame, c20EmptyFrame:
			wantSeen = append(wantSeen, i)
		case c20FrameProcErr:
			wantSeen = append(wantSeen, i)
			if pi < len(pr.procErrs) {
				wantErrs = append(wantErrs, pr.procErrs[pi])
			} else {
				wantErrs = append(wantErrs, nil)
			}
			pi++
		case c20EAGAIN, c20WrappedEAGAIN, c20Timeout, c20ConnReset, c20OpErrReset:
			verifCover("temporary")
		case c20Unknown, c20Aggregate:
			verifCover("unknown")
			wantErrs = append(wantErrs, rd.errs[i])
		default:
			stopAt = i
		}
		if stopAt >= 0 {
			break
		}
	}
	verifAssert(stopAt >= 0, "reading went on although no unrecoverable fault was returned")
	verifAssert(rd.calls == stopAt+1, "reading did not stop exactly at the first unrecoverable fault")
	verifAssert(len(pr.seen) == len(wantSeen), "number of processed frames differs from frames read")
	for i := range wantSeen {
		if i < len(pr.seen) {
			verifAssert(pr.seen[i] == wantSeen[i], "frames processed out of order or twice")
		}
	}
	verifAssert(len(got) == len(wantErrs), "number of reported errors differs (temporary faults must be silent, unknown faults and processor errors reported once)")
	for i := range wantErrs {
		if i < len(got) {
			verifAssert(c20SameErr(got[i], wantErrs[i]), "reported error is not the one that occurred / wrong order")
		}
	}
}

// VerifH_C20_cancel: K outcomes over the behavioural classes, cancellation during read number c.
func VerifH_C20_cancel() {
	K := verifParam("K", 3)
	ca := ndU8("cancelAt")
	verifAssume(ca >= 1 && int(ca) <= K+1)
	rd := &c20Reader{K: K, cancelAt: int(verifConcretize(uint64(ca)))}
	pr := &c20Proc{rd: rd}
	ctx, cancel := context.WithCancel(context.Background())
	defer cancel()
	rd.cancel = cancel
	errc := NewReceiver(rd, pr).ReceivePackets(ctx)
	var got []error
	for e := range errc {
		got = append(got, e)
	}
	verifCover("stream-closed")
	verifAssert(rd.calls <= rd.cancelAt, "a read was started after cancellation")
	// everything that happened strictly before the cancelling read is handled as usual
	var wantErrs []error
	pi := 0
	nseen := 0
	stopped := false
	for i, cls := range rd.classes {
		last := i+1 == rd.cancelAt
		switch cls {
		case c20Frame, c20EmptyFrame:
			nseen++
		case c20FrameProcErr:
			nseen++
			if !last && pi < len(pr.procErrs) {
				wantErrs = append(wantErrs, pr.procErrs[pi])
			}
			pi++
		case c20Unknown, c20Aggregate:
			if !last {
				wantErrs = append(wantErrs, rd.errs[i])
			}
		case c20EAGAIN, c20WrappedEAGAIN, c20Timeout, c20ConnReset, c20OpErrReset:
		default:
			stopped = true
		}
		if stopped {
			break
		}
	}
	verifAssert(len(pr.seen) == nseen, "a frame that was read was not processed exactly once")
	verifAssert(len(got) >= len(wantErrs) && len(got) <= len(wantErrs)+1, "errors lost or duplicated around cancellation")
	for i := range wantErrs {
		if i < len(got) {
			verifAssert(c20SameErr(got[i], wantErrs[i]), "reported error is not the one that occurred / wrong order")
		}
	}
}

// c20BurstReader delivers K frames, then EOF.
type c20BurstReader struct{ K, calls int }

func (r *c20BurstReader) ReadPacketData() ([]byte, *gopacket.CaptureInfo, error) {
	i := r.calls
	r.calls++
	if i >= r.K {
		return nil, nil, io.EOF
	}
	return []byte{byte(i), byte(i >> 8)}, &gopacket.CaptureInfo{}, nil
}

type c20BurstProc struct {
	fail []bool
	seen int
}

func (p *c20BurstProc) ProcessPacketData(data []byte, ci *gopacket.CaptureInfo) error {
	i := int(data[0]) | int(data[1])<<8
	verifAssert(i == p.seen, "frames processed out of order or twice")
	p.seen++
	if p.fail[i] {
		return &c20Err{i}
	}
	return nil
}

// VerifH_C20_errBurst: more processing errors than the 100-slot error buffer holds while the
// consumer is late: each one is still reported exactly once, in order, and no frame is skipped.
func VerifH_C20_errBurst() {
	K := verifParam("K", 150)
	good := int(ndU8("goodFrame")) // one solver-chosen frame that processes fine
	verifAssume(good < K)
	pr := &c20BurstProc{fail: make([]bool, K)}
	for i := range pr.fail {
		pr.fail[i] = i != good
	}
	rd := &c20BurstReader{K: K}
	ctx, cancel := context.WithCancel(context.Background())
	defer cancel()
	errc := NewReceiver(rd, pr).ReceivePackets(ctx)
	time.Sleep(time.Millisecond) // the consumer is late: the receiver has filled the buffer and waits
	n, next := 0, 0
	for e := range errc {
		if next == good {
			next++
		}
		ce, ok := e.(*c20Err)
		verifAssert(ok && ce.i == next, "processing errors lost, duplicated or reordered when more than 100 were pending")
		next++
		n++
	}
	verifAssert(n == K-1, "not every processing error was reported exactly once")
	verifAssert(pr.seen == K, "not every frame read was processed")
	verifCover("done")
}

// c20SeqReader: N unknown failures in a row, then one frame, then EOF; optional cancel at a call.
type c20SeqReader struct {
	N, calls int
	cancelAt int
	cancel   func()
	at       []int64
	errs     []error
	same     bool
}

func (r *c20SeqReader) ReadPacketData() ([]byte, *gopacket.CaptureInfo, error) {
	i := r.calls
	r.calls++
	r.at = append(r.at, verifNow())
	if i == r.cancelAt {
		r.cancel()
	}
	switch {
	case i < r.N:
		var e error = &c20Err{i}
		if r.same {
			e = syscall.ENETDOWN // the very same error value every time (interface down)
		}
		r.errs = append(r.errs, e)
		return nil, nil, e
	case i == r.N:
		return []byte{0, 0}, &gopacket.CaptureInfo{}, nil
	}
	return nil, nil, io.EOF
}

// VerifH_C20_unknownBurst: N consecutive unknown read failures: each is reported once, in order,
// reading goes on after each within a bounded pause that does not depend on how many came before
// (250 ms allowed per failure; the code pauses 5 ms), the frame behind them is processed, and a
// cancellation during the burst ends the stream within the same bound.
func VerifH_C20_unknownBurst() {
	N := verifParam("N", 12)
	const perFailure = int64(250 * time.Millisecond)
	verifNow()
	rd := &c20SeqReader{N: N, cancelAt: -1, same: ndBool("sameErrorValue")}
	if ndBool("cancel") {
		c := ndU8("cancelAtCall")
		verifAssume(int(c) <= N)
		rd.cancelAt = int(verifConcretize(uint64(c)))
	}
	pr := &c20BurstProc{fail: make([]bool, 1)}
	ctx, cancel := context.WithCancel(context.Background())
	defer cancel()
	rd.cancel = cancel
	errc := NewReceiver(rd, pr).ReceivePackets(ctx)
	n := 0
	for e := range errc {
		verifAssert(n < len(rd.errs) && e == rd.errs[n], "unknown read failures not reported once each, in order")
		n++
	}
	end := verifNow()
	for i := 1; i < len(rd.at); i++ {
		verifAssert(rd.at[i]-rd.at[i-1] <= perFailure, "the pause after a read failure grows with the number of failures before it (reading effectively stops)")
	}
	if rd.cancelAt >= 0 {
		verifCover("cancelled")
		verifAssert(rd.calls <= rd.cancelAt+1, "a read was started after cancellation")
		verifAssert(end-rd.at[rd.cancelAt] <= perFailure, "cancellation during a burst of failures did not end the stream promptly")
		verifAssert(n >= rd.cancelAt && n <= rd.cancelAt+1, "errors lost or duplicated around cancellation")
	} else {
		verifCover("ran-through")
		verifAssert(n == N, "not every unknown failure was reported")
		verifAssert(pr.seen == 1, "the frame behind the failures was not processed")
		verifAssert(rd.calls == N+2, "reading did not continue up to the closing fault")
	}
}

// c20SameErr: identity for comparable errors; for the aggregate type, the same first element.
func c20SameErr(a, b error) bool {
	ma, oka := a.(c20Multi)
	mb, okb := b.(c20Multi)
	if oka || okb {
		return oka && okb && len(ma) == len(mb) && len(ma) > 0 && ma[0] == mb[0]
	}
	return a == b
}
