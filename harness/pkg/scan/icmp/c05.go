package icmp

import (
	"net"

	"github.com/google/gopacket"
	"github.com/v-byte-cpu/sx/pkg/scan"
)

// VerifH_C05_icmp: every type/code/TTL/IP-flag value, address, payload of L bytes; both link modes.
func VerifH_C05_icmp() {
	vpn := verifParam("VPN", 0) == 1
	L := verifParam("L", 2)
	ttl, flags, typ, code := ndU8("ttl"), ndU8("ipflags"), ndU8("type"), ndU8("code")
	verifAssume(flags < 8)
	payload := ndBytes("payload", L)
	opts := []PacketFillerOption{WithTTL(ttl), WithIPFlags(flags), WithType(typ), WithCode(code), WithPayload(payload), WithVPNmode(vpn)}
	protoOverride := verifParam("PROTO", 0) == 1
	proto := uint8(1)
	if protoOverride {
		proto = ndU8("proto")
		opts = append(opts, WithIPProtocol(proto))
	}
	lenOverride := verifParam("LENOV", 0) == 1
	var ovLen uint16
	if lenOverride {
		ovLen = ndU16("length")
		verifAssume(ovLen != 0)
		opts = append(opts, WithIPTotalLength(ovLen))
	}
	f := NewPacketFiller(opts...)
	c05Rand = nil
	src, dst4 := ndBytes("src", 4), ndBytes("dst", 4)
	dst := net.IP(dst4)
	if verifParam("DST16", 0) == 1 {
		dst = net.IPv4(dst4[0], dst4[1], dst4[2], dst4[3])
	}
	smac, dmac := ndBytes("smac", 6), ndBytes("dmac", 6)
	buf := gopacket.NewSerializeBuffer()
	err := f.Fill(buf, &scan.Request{SrcIP: net.IP(src), DstIP: dst, SrcMAC: smac, DstMAC: dmac})
	verifAssert(err == nil, "Fill failed for a well-formed request")
	if err != nil {
		return
	}
	dl := 20 + 8 + L
	d := c05Frame(buf.Bytes(), vpn, dl, smac, dmac)
	if d == nil {
		return
	}
	verifAssert(len(c05Rand) == 2, "unexpected number of random draws")
	if len(c05Rand) != 2 {
		return
	}
	tot := dl
	if lenOverride {
		tot = int(ovLen)
	}
	c05IPHeader(d, tot, c05Rand[0], flags, ttl, proto, src, dst4)
	ic := d[20:]
	verifAssert(ic[0] == typ && ic[1] == code, "ICMP type/code are not the requested ones")
	verifAssert(int(c05U16(ic[4:6])) == 1+c05Rand[1], "ICMP id is not the drawn value")
	verifAssert(c05U16(ic[6:8]) == 1, "ICMP sequence is not 1")
	verifAssert(c05Eq(ic[8:], payload), "payload bytes differ from the requested payload")
	iz := append([]byte{}, ic...)
	iz[2], iz[3] = 0, 0
	verifAssert(c05U16(ic[2:4]) == ^c05Fold(c05Sum(iz)), "ICMP checksum wrong")
	verifCover("done")
}
