package icmp

import (
	"net"

	"github.com/v-byte-cpu/sx/pkg/scan"
)

type c06Results struct {
	got []scan.Result
	ch  chan scan.Result
}

func (r *c06Results) Put(x scan.Result)        { r.got = append(r.got, x) }
func (r *c06Results) Chan() <-chan scan.Result { return r.ch }

func c06ValidReply(vpn bool) (frame []byte, ip []byte, ttl, typ, code byte) {
	ip = ndBytes("A.src", 4)
	ttl, typ, code = ndU8("A.ttl"), ndU8("A.type"), ndU8("A.code")
	var f []byte
	if !vpn {
		f = append(f, 0x10, 0x11, 0x12, 0x13, 0x14, 0x15, 0x00, 0x0c, 0x29, 0x04, 0x05, 0x06, 0x08, 0x00)
	}
	f = append(f, 0x45, 0, 0, 28, 0x12, 0x34, 0x40, 0, ttl, 1, 0, 0)
	f = append(f, ip...)
	f = append(f, 192, 168, 0, 3)
	f = append(f, typ, code, 0, 0, 0, 1, 0, 2)
	return f[:len(f):len(f)], ip, ttl, typ, code
}

// VerifH_C06_icmp: a valid reply A, then an arbitrary frame B of LEN bytes (cap == len).
func VerifH_C06_icmp() {
	n := verifParam("LEN", 42)
	vpn := verifParam("VPN", 0) == 1
	res := &c06Results{}
	pp := NewPacketProcessor(ScanType, res, vpn)
	a, aip, attl, atyp, acode := c06ValidReply(vpn)
	err := pp.ProcessPacketData(a, nil)
	verifAssert(err == nil, "valid ICMP reply gave an error")
	verifAssert(len(res.got) == 1, "valid ICMP reply not reported exactly once")
	if len(res.got) == 1 {
		r := res.got[0].(*ScanResult)
		verifAssert(r.IP == net.IP(aip).String(), "record address is not the reply's source address")
		verifAssert(r.TTL == attl, "record TTL is not the reply's TTL")
		verifAssert(r.ICMP != nil && r.ICMP.Type == atyp && r.ICMP.Code == acode, "record type/code are not the reply's")
	}
	first := res.got
	res.got = nil
	b := ndBytes("B", n)
	b = b[:n:n]
	c06Partition(b, vpn, 1)
	_ = pp.ProcessPacketData(b, nil)
	if len(first) == 1 {
		r := first[0].(*ScanResult)
		verifAssert(r.IP == net.IP(aip).String() && r.TTL == attl && r.ICMP != nil && r.ICMP.Type == atyp && r.ICMP.Code == acode,
			"an already emitted record changed when a later frame was processed (shared storage)")
	}
	verifAssert(len(res.got) <= 1, "more than one record for one frame")
	if len(res.got) == 0 {
		verifCover("no-record")
		return
	}
	verifCover("record")
	r := res.got[0].(*ScanResult)
	off := 0
	if !vpn {
		off = 14
		wfEth := n >= 14 && b[12] == 0x08 && b[13] == 0x00
		verifAssert(wfEth, "record for a frame that is not Ethernet/IPv4")
		if !wfEth {
			return
		}
	}
	verifAssert(n >= off+20, "record for a frame without a complete IPv4 header")
	if n < off+20 {
		return
	}
	ihl := int(verifConcretize(uint64(b[off] & 0x0f)))
	tot := int(b[off+2])<<8 | int(b[off+3])
	avail := n - off
	verifAssert(ihl >= 5 && ihl*4 <= avail, "record for a frame whose IPv4 header length is invalid")
	verifAssert(b[off+9] == 1, "record for a frame whose IPv4 protocol is not ICMP (nested or other protocol)")
	fragOff := (int(b[off+6])&0x1f)<<8 | int(b[off+7])
	verifAssert(fragOff == 0 && b[off+6]&0x20 == 0, "record for an IPv4 fragment")
	if !(ihl >= 5 && ihl*4 <= avail) {
		return
	}
	t := off + ihl*4
	if tot == 0 {
		tot = avail
	}
	verifAssert(tot >= ihl*4+8 && t+8 <= n, "record for a frame without a complete ICMP header inside the datagram")
	if t+8 > n {
		return
	}
	verifAssert(r.IP == net.IP(b[off+12:off+16]).String(), "record address is not this frame's source address (left over from an earlier frame?)")
	verifAssert(r.TTL == b[off+8], "record TTL is not this frame's TTL")
	verifAssert(r.ICMP != nil && r.ICMP.Type == b[t] && r.ICMP.Code == b[t+1], "record type/code are not this frame's (left over from an earlier frame?)")
}

// c06Partition restricts B to one region of the frame space (PART); the regions of one
// LEN together cover every byte string of that length, each is explored by its own process.
func c06Partition(b []byte, vpn bool, proto byte) {
	part := verifParam("PART", 0)
	if part == 0 {
		return
	}
	off := 14
	if vpn {
		off = 0
	}
	if len(b) < off+20 {
		// short frames: a single region (the first one of the mode)
		first := 1
		if vpn {
			first = 2
		}
		verifAssume(part == first)
		return
	}
	isIP := vpn || (b[12] == 0x08 && b[13] == 0x00)
	if isIP {
		// bound: outer IPv4 header with at most (MAXIHL-5)*4 option bytes
		verifAssume(int(b[off]&0x0f) <= verifParam("MAXIHL", 15))
	}
	ihl5 := b[off]&0x0f == 5
	pr := b[off+9]
	switch part {
	case 1:
		verifAssume(!isIP)
	case 2:
		verifAssume(isIP && pr == proto && ihl5)
	case 3:
		verifAssume(isIP && pr == proto && !ihl5)
	case 4:
		verifAssume(isIP && pr == 4)
		if verifParam("INNER", 0) == 1 && len(b) >= off+40 {
			// nested obligations: the inner packet is itself an unfragmented IPv4 header (IHL 5) of the scanned protocol
			verifAssume(ihl5 && b[off+20] == 0x45 && b[off+29] == proto && b[off+26]&0x3f == 0 && b[off+27] == 0)
			in := len(b) - off - 20
			verifAssume(b[off+22] == byte(in>>8) && b[off+23] == byte(in))
		}
	case 5:
		verifAssume(isIP && pr != 4 && pr != proto)
	}
}
