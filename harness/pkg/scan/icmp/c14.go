package icmp

import "strconv"

// VerifH_C14_icmpJSON: the generated encoder with an arbitrary ASCII string of L bytes in one string
// field and every TTL / type / code value.
func VerifH_C14_icmpJSON() {
	L := verifParam("L", 1)
	r := &ScanResult{ScanType: "icmp", IP: "10.0.0.1", TTL: ndU8("ttl"), ICMP: &Response{Type: ndU8("type"), Code: ndU8("code")}}
	sym := c14ASCII("s", L)
	if verifParam("FIELD", 0) == 0 {
		r.IP = string(sym)
	} else {
		r.ScanType = string(sym)
	}
	out, err := r.MarshalJSON()
	verifAssert(err == nil, "encoder failed")
	for _, c := range out {
		verifAssert(c != '\n' && c != '\r', "raw line break inside a record")
	}
	kvs, ok := c14Object(out)
	verifAssert(ok, "output is not one complete JSON object (bad escaping?)")
	if !ok {
		return
	}
	verifAssert(len(kvs) == 4, "object does not have exactly the documented keys")
	if len(kvs) != 4 {
		return
	}
	verifAssert(kvs[0].key == "scan" && kvs[0].isStr && c14SameBytes(kvs[0].str, c14Expect([]byte(r.ScanType))), "scan type does not decode back")
	verifAssert(kvs[1].key == "ip" && kvs[1].isStr && c14SameBytes(kvs[1].str, c14Expect([]byte(r.IP))), "ip does not decode back")
	verifAssert(kvs[2].key == "ttl" && !kvs[2].isStr && c14SameBytes(kvs[2].raw, []byte(strconv.Itoa(int(r.TTL)))), "ttl does not decode back")
	verifAssert(kvs[3].key == "icmp" && !kvs[3].isStr, "icmp object missing")
	inner, ok := c14Object(kvs[3].raw)
	verifAssert(ok && len(inner) == 2, "nested icmp value is not an object with type and code")
	if ok && len(inner) == 2 {
		verifAssert(inner[0].key == "type" && c14SameBytes(inner[0].raw, []byte(strconv.Itoa(int(r.ICMP.Type)))), "icmp type does not decode back")
		verifAssert(inner[1].key == "code" && c14SameBytes(inner[1].raw, []byte(strconv.Itoa(int(r.ICMP.Code)))), "icmp code does not decode back")
	}
	verifCover("done")
}
