package icmp

import (
	"net"

	"github.com/v-byte-cpu/sx/pkg/scan"
)

// VerifH_C03_icmp: the icmp/udp scans: filter text from the real BPFFilter compiled by libpcap,
// composed with the real processor; every well-formed unfragmented frame of LEN bytes.
func VerifH_C03_icmp() {
	n := verifParam("LEN", 42)
	vpn := verifParam("VPN", 0) == 1
	r := &scan.Range{}
	withNet := verifParam("TGT", 1) == 1
	if withNet {
		r.DstSubnet = c03Subnets[verifParam("SUBNET", 0)]()
	}
	text, snap := BPFFilter(r)
	prog, err := c03Compile(vpn, snap, text)
	verifAssert(err == nil, "libpcap rejects the filter expression")
	if err != nil {
		return
	}
	res := &c06Results{}
	pp := NewPacketProcessor(ScanType, res, vpn)
	b := ndBytes("F", n)
	b = b[:n:n]
	off, ihl := c03WFIPv4(b, vpn, verifParam("MAXIHL", 6))
	t := off + ihl*4
	proto := b[off+9]
	isICMP := proto == 1
	if isICMP {
		verifAssume(t+8 <= n)
		verifCover("icmp-frame")
	} else {
		verifAssume(proto != 4 && proto != 41 && proto != 94)
		verifCover("other-protocol")
	}
	captured, passB := c03Capture(prog, b) // the kernel cuts accepted frames to the filter's snap length
	passR := false
	if passB {
		perr := pp.ProcessPacketData(captured, nil)
		passR = perr == nil && len(res.got) == 1
	} else {
		// what the processor would do is still examined: the filter is an optimisation, not the oracle
		perr := pp.ProcessPacketData(b, nil)
		passR = perr == nil && len(res.got) == 1
	}
	verifAssert(len(res.got) <= 1, "more than one record for one frame")
	shape := false
	if isICMP {
		src := b[off+12 : off+16]
		shape = b[t] != 8 && (!withNet || c03InNet(src, r.DstSubnet))
		if passR {
			rec := res.got[0].(*ScanResult)
			verifAssert(rec.IP == net.IP(src).String() && rec.TTL == b[off+8], "record address/TTL are not the frame's")
			verifAssert(rec.ICMP != nil && rec.ICMP.Type == b[t] && rec.ICMP.Code == b[t+1], "record type/code are not the frame's")
		}
	}
	if shape {
		verifCover("reply-shaped")
		verifAssert(passB, "a reply-shaped frame is dropped by the kernel filter")
		verifAssert(passR, "a reply-shaped frame is not reported by the processor")
	} else {
		verifAssert(!(passB && passR), "a frame that is not reply-shaped passes the filter and is reported")
	}
	if passR && isICMP {
		// a later reply must not change the record already emitted
		rec := res.got[0].(*ScanResult)
		ip0, ttl0, typ0, code0 := rec.IP, rec.TTL, rec.ICMP.Type, rec.ICMP.Code
		var f2 []byte
		if !vpn {
			f2 = append(f2, 0x10, 0x11, 0x12, 0x13, 0x14, 0x15, 0x00, 0x0c, 0x29, 0x04, 0x05, 0x07, 0x08, 0x00)
		}
		f2 = append(f2, 0x45, 0, 0, 28, 0x12, 0x34, 0x40, 0, 61, 1, 0, 0, 192, 168, 0, 9, 192, 168, 0, 3, 3, 13, 0, 0, 0, 1, 0, 2)
		_ = pp.ProcessPacketData(f2[:len(f2):len(f2)], nil)
		verifAssert(rec.IP == ip0 && rec.TTL == ttl0 && rec.ICMP != nil && rec.ICMP.Type == typ0 && rec.ICMP.Code == code0,
			"an already emitted record changed when a later frame was processed (shared storage)")
	}
}
