package icmp

import (
	"net"

	"github.com/v-byte-cpu/sx/pkg/scan"
)

// VerifH_C03_icmp: the icmp/udp scans: filter text from the real BPFFilter compiled by libpcap,
// composed with the real processor; every well-formed unfragmented frame of LEN bytes.
func VerifH_C03_icmp() {
	n := verifParam("LEN", 42)
	vpn := verifParam("VPN", 0) == 1
	r := &scan.Range{}
	withNet := verifParam("TGT", 1) == 1
	if withNet {
		r.DstSubnet = &net.IPNet{IP: net.IPv4(192, 168, 0, 0).To4(), Mask: net.CIDRMask(24, 32)}
	}
	text, snap := BPFFilter(r)
	prog, err := c03Compile(vpn, snap, text)
	verifAssert(err == nil, "libpcap rejects the filter expression")
	if err != nil {
		return
	}
	res := &c06Results{}
	pp := NewPacketProcessor(ScanType, res, vpn)
	b := ndBytes("F", n)
	b = b[:n:n]
	off, ihl := c03WFIPv4(b, vpn, verifParam("MAXIHL", 6))
	t := off + ihl*4
	proto := b[off+9]
	isICMP := proto == 1
	if isICMP {
		verifAssume(t+8 <= n)
		verifCover("icmp-frame")
	} else {
		verifAssume(proto != 4 && proto != 41 && proto != 94)
		verifCover("other-protocol")
	}
	passB := c03RunBPF(prog, b)
	perr := pp.ProcessPacketData(b, nil)
	passR := perr == nil && len(res.got) == 1
	verifAssert(len(res.got) <= 1, "more than one record for one frame")
	shape := false
	if isICMP {
		src := b[off+12 : off+16]
		shape = b[t] != 8 && (!withNet || (src[0] == 192 && src[1] == 168 && src[2] == 0))
		if passR {
			rec := res.got[0].(*ScanResult)
			verifAssert(rec.IP == net.IP(src).String() && rec.TTL == b[off+8], "record address/TTL are not the frame's")
			verifAssert(rec.ICMP != nil && rec.ICMP.Type == b[t] && rec.ICMP.Code == b[t+1], "record type/code are not the frame's")
		}
	}
	if shape {
		verifCover("reply-shaped")
		verifAssert(passB, "a reply-shaped frame is dropped by the kernel filter")
		verifAssert(passR, "a reply-shaped frame is not reported by the processor")
	} else {
		verifAssert(!(passB && passR), "a frame that is not reply-shaped passes the filter and is reported")
	}
}
