package elastic

import (
	"context"
	"encoding/json"
	"errors"
	"io"
	"net"
	"net/http"
	"time"

	"github.com/v-byte-cpu/sx/pkg/scan"
)

// ---- a scripted HTTP server behind the two seams of elasticClient.Get ----
//
// seam 1: c.client.Do(req)      -> verifSeam_Do: the scripted exchange (headers: answer / transport
//         error / stall until the request context ends; then a body with its own behaviour).
//         Natively the real http.Client runs with the scripted exchange as its RoundTripper.
// seam 2: json.NewDecoder(body) -> verifSeam_NewDecoder: symbolically a *contract model* of
//         encoding/json's Decoder.Decode into *map[string]interface{} (verdict by the kind of the
//         concrete body text, reads through the body's real Read method); natively the REAL decoder,
//         so every replayed path compares the contract model with the library.

var c10Bodies = []string{
	`{"cluster_name":"c","version":{"number":"7.1"}}`, // 0 object
	`{}`,                 // 1 empty object
	`null`,               // 2 JSON null: not an object
	`[1]`,                // 3 array
	`7`,                  // 4 number
	`"s"`,                // 5 string
	`<html>hi</html>`,    // 6 not JSON
	``,                   // 7 empty
	`{"cluster_name":`,   // 8 truncated object
	`{"a":1} trailing`,   // 9 object followed by other data (the first value is an object)
	`true`,               // 10 literal
	` {"i1":{"aliases":{}}}`, // 11 object after white space
}

// verdict of the first JSON value of body kind k: 0 object, 1 null, 2 other JSON value, 3 syntax error,
// 4 incomplete (needs more input); literal: the value ends only with a further byte or EOF
func c10Verdict(k int) (verdict int, literal bool) {
	switch k {
	case 0, 1, 9, 11:
		return 0, false
	case 2:
		return 1, true
	case 3:
		return 2, false
	case 5:
		return 2, false
	case 4, 10:
		return 2, true
	case 6:
		return 3, false
	}
	return 4, false
}

type c10Resp struct {
	mode     int // 0 answers, 1 transport error, 2 headers never come (until the request context ends)
	status   int
	kind     int // index into c10Bodies
	bodyMode int // after the body text: 0 EOF, 1 stall until the request context ends, 2 endless white space, 3 reset
	latency  time.Duration
}

type c10Call struct {
	method, url string
	hasDL       bool
	dl          time.Duration // deadline of the request context relative to the call
	at          time.Duration
}

var (
	c10Script    [2]c10Resp
	c10Scripted  [2]bool
	c10Full      [2]bool
	c10LatencyOf time.Duration // request 0 may answer this late (just below the timeout)
	c10Calls     []c10Call
	c10BodiesOut []*c10Body
)

// the behaviour of the k-th exchange is chosen when the k-th request arrives
func c10ScriptFor(k int) c10Resp {
	if !c10Scripted[k] {
		c10Scripted[k] = true
		tag := []string{"r0.", "r1."}[k]
		c10Script[k] = c10PickResp(tag, c10Full[k])
		if k == 0 && c10LatencyOf > 0 && c10Choice("r0.late", 2) == 1 {
			c10Script[0].latency = c10LatencyOf
		}
	}
	return c10Script[k]
}

var errC10Refused = errors.New("connect: connection refused")
var errC10Reset = errors.New("read: connection reset by peer")

type c10Body struct {
	ctx    context.Context
	data   []byte
	off    int
	mode   int
	closed int
	reads  int
}

func (b *c10Body) Read(p []byte) (int, error) {
	if b.closed > 0 {
		return 0, errors.New("http: read on closed response body")
	}
	b.reads++
	// the transport stops delivering body bytes once the request context has ended (worst case: nothing
	// was buffered ahead); a caller that cancels its timeout context before reading the body gets this
	if err := b.ctx.Err(); err != nil {
		return 0, err
	}
	if len(p) == 0 {
		return 0, nil
	}
	if b.off < len(b.data) {
		n := copy(p, b.data[b.off:])
		b.off += n
		return n, nil
	}
	switch b.mode {
	case 1:
		<-b.ctx.Done()
		return 0, b.ctx.Err()
	case 2:
		select {
		case <-b.ctx.Done():
			return 0, b.ctx.Err()
		case <-time.After(time.Second):
		}
		p[0] = ' '
		return 1, nil
	case 3:
		return 0, errC10Reset
	}
	return 0, io.EOF
}

func (b *c10Body) Close() error { b.closed++; return nil }

type c10RT struct{}

type c10Key struct{}

var (
	c10Conc     bool
	c10ConcURLs [2][]string
	c10ConcSlow int // which probe's first exchange is slow
	c10InFirst  chan struct{} // closed when the slow probe's GET / has arrived
	c10FastDone chan struct{} // closed when the other probe has completed
)

// concurrent mode: the probe is identified by a value in its context; probe c10ConcSlow's GET / is slow
func c10ConcRoundTrip(req *http.Request) (*http.Response, error) {
	ctx := req.Context()
	id, _ := ctx.Value(c10Key{}).(int)
	first := len(c10ConcURLs[id]) == 0
	c10ConcURLs[id] = append(c10ConcURLs[id], req.URL.String())
	if first && id == c10ConcSlow {
		// forced hand-shake: this exchange stays in flight until the other probe has run to completion
		close(c10InFirst)
		select {
		case <-ctx.Done():
			return nil, ctx.Err()
		case <-c10FastDone:
		}
	}
	text := `{"cluster_name":"c","version":{"number":"7.1"}}`
	if !first {
		text = ` {"i1":{"aliases":{}}}`
	}
	body := &c10Body{ctx: ctx, data: []byte(text)}
	return &http.Response{StatusCode: 200, Status: "x", Proto: "HTTP/1.1", ProtoMajor: 1, ProtoMinor: 1,
		Header: http.Header{}, Body: body, ContentLength: -1, Request: req}, nil
}

func (c10RT) RoundTrip(req *http.Request) (*http.Response, error) {
	if c10Conc {
		return c10ConcRoundTrip(req)
	}
	k := len(c10Calls)
	ctx := req.Context()
	call := c10Call{method: req.Method, url: req.URL.String(), at: time.Duration(verifNow())}
	if dl, ok := ctx.Deadline(); ok {
		call.hasDL = true
		call.dl = time.Until(dl)
	}
	c10Calls = append(c10Calls, call)
	if k > 1 {
		k = 1
	}
	sc := c10ScriptFor(k)
	if err := ctx.Err(); err != nil {
		return nil, err
	}
	if sc.latency > 0 {
		select {
		case <-ctx.Done():
			return nil, ctx.Err()
		case <-time.After(sc.latency):
		}
	}
	switch sc.mode {
	case 1:
		return nil, errC10Refused
	case 2:
		<-ctx.Done()
		return nil, ctx.Err()
	}
	body := &c10Body{ctx: ctx, data: []byte(c10Bodies[sc.kind]), mode: sc.bodyMode}
	c10BodiesOut = append(c10BodiesOut, body)
	return &http.Response{StatusCode: sc.status, Status: "x", Proto: "HTTP/1.1", ProtoMajor: 1, ProtoMinor: 1,
		Header: http.Header{}, Body: body, ContentLength: -1, Request: req}, nil
}

func verifSeam_Do(cl *http.Client, req *http.Request) (*http.Response, error) {
	if !verifSymbolic() {
		c2 := *cl
		c2.Transport = c10RT{}
		return c2.Do(req)
	}
	// contract of http.Client.Do used here: one exchange, any status code is a response not an error,
	// transport errors come back as errors, the request context bounds the exchange
	if cl.Timeout != 0 {
		verifAssert(false, "harness: http.Client.Timeout is set; the Do contract model does not cover it")
	}
	return c10RT{}.RoundTrip(req)
}

type c10Decoder struct {
	r io.Reader
}

func verifSeam_NewDecoder(r io.Reader) *c10Decoder { return &c10Decoder{r: r} }

func (d *c10Decoder) Decode(v interface{}) error {
	if !verifSymbolic() {
		return json.NewDecoder(d.r).Decode(v)
	}
	dst, ok := v.(*map[string]interface{})
	if !ok {
		verifAssert(false, "harness: Decode target is not *map[string]interface{}; contract model does not cover it")
		return errors.New("unsupported")
	}
	b, ok := d.r.(*c10Body)
	if !ok {
		verifAssert(false, "harness: decoder reads from something that is not the response body")
		return errors.New("unsupported")
	}
	kind := -1
	for i, s := range c10Bodies {
		if s == string(b.data) {
			kind = i
		}
	}
	verdict, literal := c10Verdict(kind)
	// read the text (the decoder reads at least until the first value is complete)
	buf := make([]byte, 512)
	got := 0
	var rerr error
	for got < len(b.data) && rerr == nil {
		var n int
		n, rerr = b.Read(buf)
		got += n
	}
	if verdict == 3 && got > 0 {
		return &json.SyntaxError{Offset: 1}
	}
	if rerr == nil && (literal || verdict == 4) {
		// a literal ends with the next byte or EOF; an incomplete value needs more input
		for rerr == nil {
			var n int
			n, rerr = b.Read(buf)
			if n > 0 && literal {
				break
			}
		}
		if rerr == io.EOF {
			if verdict == 4 {
				if got == 0 {
					return io.EOF
				}
				return io.ErrUnexpectedEOF
			}
			rerr = nil
		}
	}
	if rerr != nil {
		return rerr
	}
	switch verdict {
	case 0:
		m := map[string]interface{}{}
		switch kind {
		case 0:
			m["cluster_name"] = "c"
			m["version"] = map[string]interface{}{"number": "7.1"}
		case 9:
			m["a"] = float64(1)
		case 11:
			m["i1"] = map[string]interface{}{"aliases": map[string]interface{}{}}
		}
		*dst = m
		return nil
	case 1:
		*dst = nil // documented: JSON null sets a map to nil, no error
		return nil
	}
	return &json.UnmarshalTypeError{Value: "value", Offset: 1}
}

func c10Choice(label string, n uint8) int {
	v := ndU8(label)
	verifAssume(v < n)
	return int(verifConcretize(uint64(v)))
}

type c10Target struct {
	ip   net.IP
	port uint16
	host string
}

var c10Targets = []c10Target{
	{net.IPv4(10, 1, 2, 3), 9200, "10.1.2.3:9200"},
	{net.IP{192, 168, 0, 1}, 65535, "192.168.0.1:65535"},
	{net.IPv4(172, 16, 255, 254), 1, "172.16.255.254:1"},
}

func c10PickResp(tag string, full bool) c10Resp {
	var r c10Resp
	r.status = 200
	if full {
		r.mode = c10Choice(tag+"mode", 3)
		if r.mode == 0 {
			r.status = []int{200, 404}[c10Choice(tag+"status", 2)]
			r.kind = c10Choice(tag+"kind", uint8(len(c10Bodies)))
			r.bodyMode = c10Choice(tag+"bodyMode", 4)
		}
		return r
	}
	// reduced script: object / null / not JSON / object after white space / refused / stalled headers / truncated + stall
	switch c10Choice(tag+"what", 7) {
	case 0:
		r.kind = 0
	case 1:
		r.kind = 2
	case 2:
		r.kind, r.status = 6, 404
	case 3:
		r.kind = 11
	case 4:
		r.mode = 1
	case 5:
		r.mode = 2
	case 6:
		r.kind, r.bodyMode = 8, 1
	}
	return r
}

// does the scripted exchange deliver a JSON object as its first value (whatever follows)?
func c10Object(r c10Resp) bool {
	v, _ := c10Verdict(r.kind)
	return r.mode == 0 && v == 0
}

func c10Slack() time.Duration {
	if verifSymbolic() {
		return 0
	}
	return 400 * time.Millisecond
}

// VerifH_C10_elastic: the real Scanner.Scan / elasticClient.Get against every scripted behaviour of
// the primary (GET /) and the secondary (GET /_aliases) exchange.
func VerifH_C10_elastic() {
	tsel := verifParam("TIMEOUT", 0)
	dataT := []time.Duration{2 * time.Second, 5 * time.Second, 300 * time.Millisecond}[tsel]
	ti := c10Choice("target", uint8(len(c10Targets)))
	proto := []string{"http", "https", "http"}[ti]
	tgt := c10Targets[ti]
	verifNow()
	c10Calls, c10BodiesOut = nil, nil
	c10Scripted = [2]bool{}
	c10Full = [2]bool{verifParam("FULL", 0)&1 == 0, verifParam("FULL", 0)&2 == 2}
	c10LatencyOf = dataT - time.Millisecond
	cancelAt := time.Duration(-1)
	if csel := verifParam("CANCEL", 0); csel > 0 {
		cancelAt = []time.Duration{0, dataT / 2, dataT + dataT/2}[csel-1]
	}
	ctx, cancel := context.WithCancel(context.Background())
	defer cancel()
	if cancelAt >= 0 {
		go func() {
			if cancelAt > 0 {
				time.Sleep(cancelAt)
			}
			cancel()
		}()
	}
	s := NewScanner(proto, WithDataTimeout(dataT))
	start := time.Duration(verifNow())
	res, err := s.Scan(ctx, &scan.Request{DstIP: tgt.ip, DstPort: tgt.port})
	took := time.Duration(verifNow()) - start

	// every request: GET, the probed target over the chosen scheme, bounded by the data timeout
	for i, c := range c10Calls {
		verifAssert(c.method == "GET", "request method is not GET")
		verifAssert(c.hasDL && c.dl <= dataT, "a request was sent without the configured timeout on its context")
		want := proto + "://" + tgt.host + "/"
		if i == 1 {
			want += "_aliases"
		}
		if i < 2 {
			verifAssert(c.url == want, "request does not go to the probed address, port and scheme")
		}
	}
	verifAssert(len(c10Calls) >= 1 || cancelAt >= 0, "no request was made")
	// time bound: one timeout per request made
	verifAssert(took <= time.Duration(len(c10Calls))*dataT+c10Slack()*2 || len(c10Calls) == 0, "probe exceeded its timeout per request")
	if cancelAt >= 0 {
		verifCover("cancelled")
	}
	primaryOK := c10Scripted[0] && c10Object(c10Script[0])
	secondaryOK := c10Scripted[1] && c10Object(c10Script[1])
	if res != nil {
		verifCover("reported")
		verifAssert(err == nil, "a record together with an error")
		verifAssert(primaryOK, "endpoint reported although GET / did not deliver a JSON object")
		r, ok := res.(*ScanResult)
		verifAssert(ok, "record of another type")
		if ok {
			verifAssert(r.ScanType == ScanType && r.Proto == proto && r.Host == tgt.host, "record does not carry the probed host, port and scheme")
			verifAssert(r.ID() == tgt.host, "record id is not the probed host:port")
			verifAssert(r.Info != nil, "record without the info object")
			if c10Script[0].kind == 0 {
				verifAssert(r.Info["cluster_name"] == "c", "record info is not the object the server sent")
			}
			if len(c10Calls) == 2 && secondaryOK && cancelAt < 0 {
				if c10Script[1].kind == 11 {
					_, has := r.Indexes["i1"]
					verifAssert(has && len(r.Indexes) == 1, "index list of the record is not the one the server sent")
				}
			} else if !secondaryOK {
				verifCover("secondary-failed")
				verifAssert(len(r.Indexes) == 0, "a failed index request left data in the record")
			}
		}
	} else {
		verifCover("not-reported")
		if cancelAt < 0 {
			verifAssert(!primaryOK, "GET / delivered a JSON object but the endpoint was not reported")
			verifAssert(err != nil, "no record and no error")
		}
	}
}

// VerifH_C10_elasticTwo: two probes by one scanner (state between items): each judged on its own.
func VerifH_C10_elasticTwo() {
	dataT := 2 * time.Second
	proto := "http"
	verifNow()
	s := NewScanner(proto, WithDataTimeout(dataT))
	var recs []*ScanResult
	var tg []c10Target
	for k := 0; k < 2; k++ {
		tgt := c10Targets[c10Choice("target", uint8(len(c10Targets)))]
		c10Calls, c10BodiesOut = nil, nil
		c10Scripted, c10Full, c10LatencyOf = [2]bool{}, [2]bool{}, 0
		res, err := s.Scan(context.Background(), &scan.Request{DstIP: tgt.ip, DstPort: tgt.port})
		ok0 := c10Scripted[0] && c10Object(c10Script[0])
		verifAssert((res != nil) == ok0, "probe verdict differs from its own primary exchange")
		verifAssert((res != nil) != (err != nil), "record and error do not exclude each other")
		if r, ok := res.(*ScanResult); ok && r != nil {
			verifAssert(r.Host == tgt.host, "record does not carry its own probe's host")
			if !(c10Scripted[1] && c10Object(c10Script[1])) {
				verifAssert(len(r.Indexes) == 0, "a failed index request left data in the record")
			}
			recs = append(recs, r)
			tg = append(tg, tgt)
		}
	}
	for i, r := range recs {
		verifAssert(r.Host == tg[i].host && r.Info != nil, "a record changed when a later probe was made")
	}
	verifCover("done")
}

// VerifH_C10_elasticConc: two probes of different targets by one scanner AT THE SAME TIME (the generic
// engine shares one scanner between its workers); one of them waits for its GET / while the other runs
// to completion (forced by a hand-shake, so the interleaving is the same natively): every request goes to its own probe's target and each record is its own.
func VerifH_C10_elasticConc() {
	verifNow()
	c10Conc = true
	defer func() { c10Conc = false }()
	c10ConcURLs = [2][]string{}
	c10ConcSlow = c10Choice("slow", 2)
	t0 := c10Choice("target0", uint8(len(c10Targets)))
	t1 := (t0 + 1 + c10Choice("target1", uint8(len(c10Targets)-1))) % len(c10Targets)
	tg := [2]c10Target{c10Targets[t0], c10Targets[t1]}
	s := NewScanner("http", WithDataTimeout(5*time.Second))
	var res [2]scan.Result
	var errs [2]error
	c10InFirst, c10FastDone = make(chan struct{}), make(chan struct{})
	slowDone := make(chan struct{})
	probe := func(id int) {
		ctx := context.WithValue(context.Background(), c10Key{}, id)
		res[id], errs[id] = s.Scan(ctx, &scan.Request{DstIP: tg[id].ip, DstPort: tg[id].port})
	}
	go func() { probe(c10ConcSlow); close(slowDone) }()
	select {
	case <-c10InFirst: // the slow probe's GET / is in flight now
	case <-slowDone:
		verifAssert(false, "probe ended without making its GET / request")
		return
	}
	probe(1 - c10ConcSlow)
	close(c10FastDone)
	<-slowDone
	for id := 0; id < 2; id++ {
		verifAssert(errs[id] == nil && res[id] != nil, "an endpoint serving a JSON object was not reported")
		for i, u := range c10ConcURLs[id] {
			want := "http://" + tg[id].host + "/"
			if i == 1 {
				want += "_aliases"
			}
			verifAssert(i > 1 || u == want, "a request of one probe went to another probe's target")
		}
		if r, ok := res[id].(*ScanResult); ok && r != nil {
			verifAssert(r.Host == tg[id].host, "record does not carry its own probe's host")
		}
	}
	verifCover("done")
}
