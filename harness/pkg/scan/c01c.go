package scan

import (
	"context"
	"errors"
	"net"
)

// ---- interface stubs for the generator combinators ----

type c01IPGen struct {
	ips    [][]byte // addresses of one pass
	ipErr  []bool   // element j is an error element
	calls  int
	failAt int // IPs() call number that fails to start (-1: never)
	errs   []error
}

var errC01Start = errors.New("ip source cannot start")

func (g *c01IPGen) IPs(ctx context.Context, r *Range) (<-chan IPGetter, error) {
	g.calls++
	if g.calls == g.failAt {
		return nil, errC01Start
	}
	out := make(chan IPGetter, len(g.ips))
	for j, ip := range g.ips {
		if g.ipErr[j] {
			out <- &ipError{error: ErrIP}
		} else {
			out <- WrapIP(ip)
		}
	}
	close(out)
	return out, nil
}

type c01PortGen struct {
	ports   []uint16
	portErr []bool
}

func (g *c01PortGen) Ports(ctx context.Context, r *Range) (<-chan PortGetter, error) {
	out := make(chan PortGetter, len(g.ports))
	for j, p := range g.ports {
		if g.portErr[j] {
			out <- &portError{errRangeSize}
		} else {
			out <- WrapPort(p)
		}
	}
	close(out)
	return out, nil
}

func c01Choice(label string) bool { return verifConcretize(uint64(ndU8(label))&1) == 1 }

// VerifH_C01_ipport: M ports x J addresses (values, error flags and a failing restart symbolic).
func VerifH_C01_ipport() {
	M, J := verifParam("M", 2), verifParam("J", 2)
	ig := &c01IPGen{failAt: -1}
	for j := 0; j < J; j++ {
		ig.ips = append(ig.ips, ndBytes("ip", 4))
		ig.ipErr = append(ig.ipErr, c01Choice("ipIsErr"))
	}
	pg := &c01PortGen{}
	for i := 0; i < M; i++ {
		pg.ports = append(pg.ports, ndU16("port"))
		pg.portErr = append(pg.portErr, c01Choice("portIsErr"))
	}
	fa := ndU8("failAt")
	verifAssume(fa <= uint8(M)+1)
	if f := int(verifConcretize(uint64(fa))); f >= 2 {
		ig.failAt = f // the first call happens before the stream starts
	}
	src := net.IP(ndBytes("src", 4))
	mac := ndBytes("mac", 6)
	r := &Range{SrcIP: src, SrcMAC: mac}
	ch, err := NewIPPortGenerator(ig, pg).GenerateRequests(context.Background(), r)
	verifAssert(err == nil, "combinator refused working sources")
	if err != nil {
		return
	}
	var out []*Request
	for rq := range ch {
		out = append(out, rq)
	}
	k := 0
	pass := 1 // number of the IPs() call that feeds the current port
	ended := false
	for i := 0; i < M && !ended; i++ {
		if pg.portErr[i] {
			if k < len(out) {
				verifAssert(out[k].Err != nil, "an unusable port range produced a probe")
			}
			k++
			continue
		}
		for j := 0; j < J; j++ {
			if k < len(out) {
				rq := out[k]
				if ig.ipErr[j] {
					verifAssert(rq.Err != nil, "an unusable address produced a probe")
				} else {
					verifAssert(rq.Err == nil, "a good (address, port) pair was turned into an error")
					verifAssert(string(rq.DstIP) == string(ig.ips[j]), "probe address is not the j-th address of the pass")
					verifAssert(rq.DstPort == pg.ports[i], "probe port is not the current port")
					verifAssert(string(rq.SrcIP) == string(src) && string(rq.SrcMAC) == string(mac), "source fields not copied from the range")
				}
			}
			k++
		}
		pass++
		if pass == ig.failAt {
			if k < len(out) {
				verifAssert(out[k].Err != nil, "a failing restart of the address source is not reported")
			}
			k++
			ended = true
		}
	}
	verifAssert(k == len(out), "number of requests is not ports x addresses (an address pass was lost, repeated or cut short)")
	verifCover("done")
}

// VerifH_C01_iprequest: the port-less combinator (arp, icmp).
func VerifH_C01_iprequest() {
	J := verifParam("J", 3)
	ig := &c01IPGen{failAt: -1}
	for j := 0; j < J; j++ {
		ig.ips = append(ig.ips, ndBytes("ip", 4))
		ig.ipErr = append(ig.ipErr, c01Choice("ipIsErr"))
	}
	src := net.IP(ndBytes("src", 4))
	mac := ndBytes("mac", 6)
	ch, err := NewIPRequestGenerator(ig).GenerateRequests(context.Background(), &Range{SrcIP: src, SrcMAC: mac})
	verifAssert(err == nil, "combinator refused a working source")
	if err != nil {
		return
	}
	n := 0
	for rq := range ch {
		if n < J {
			if ig.ipErr[n] {
				verifAssert(rq.Err != nil, "an unusable address produced a probe")
			} else {
				verifAssert(rq.Err == nil && string(rq.DstIP) == string(ig.ips[n]), "probe address is not the n-th address")
				verifAssert(string(rq.SrcIP) == string(src) && string(rq.SrcMAC) == string(mac), "source fields not copied from the range")
				verifAssert(rq.DstPort == 0, "port-less scan request carries a port")
			}
		}
		n++
	}
	verifAssert(n == J, "number of requests differs from the number of addresses")
	verifAssert(ig.calls == 1, "address source not started exactly once for a port-less pass")
	verifCover("done")
}

// VerifH_C01_ipgenRetain: the real generator with the real permutation iterator over a /ONES
// subnet at a solver-chosen base; the consumer keeps every address it was handed (as the later
// pipeline stages do: Request.DstIP is that slice) and looks at them only after the stream has
// ended: every address of the subnet exactly once, none changed after it was handed over.
func VerifH_C01_ipgenRetain() {
	ones := verifParam("ONES", 25)
	base := ndBytes("base", 4)
	if verifParam("FIXBASE", 0) == 1 {
		// large subnets: the base is pinned (172.20.x.0), the run is then a concrete execution
		// of the real pipeline - what is explored is the retention pattern, not the address
		verifAssume(base[0] == 172 && base[1] == 20 && base[2] == 6 && base[3] == 0)
		base = []byte{172, 20, 6, 0}
	}
	mask := net.CIDRMask(ones, 32)
	r := &Range{DstSubnet: &net.IPNet{IP: net.IP(base), Mask: mask}}
	ch, err := NewIPGenerator().IPs(context.Background(), r)
	verifAssert(err == nil, "valid IPv4 subnet refused")
	if err != nil {
		return
	}
	var kept [][]byte
	for g := range ch {
		ip, gerr := g.GetIP()
		verifAssert(gerr == nil && len(ip) == 4, "address generator produced an error element or a non-IPv4 address")
		if len(ip) == 4 {
			kept = append(kept, ip)
		}
	}
	size := 1 << uint(32-ones)
	verifAssert(len(kept) == size, "number of addresses differs from the size of the subnet")
	m32 := uint32(mask[0])<<24 | uint32(mask[1])<<16 | uint32(mask[2])<<8 | uint32(mask[3])
	netw := (uint32(base[0])<<24 | uint32(base[1])<<16 | uint32(base[2])<<8 | uint32(base[3])) & m32
	seen := make([]bool, size)
	for _, ip := range kept {
		got := uint32(ip[0])<<24 | uint32(ip[1])<<16 | uint32(ip[2])<<8 | uint32(ip[3])
		verifAssert(got&m32 == netw, "address outside the target subnet")
		off := int(verifConcretize(uint64(got &^ m32)))
		if off < size {
			verifAssert(!seen[off], "an address was handed out twice (or an earlier one was overwritten later)")
			seen[off] = true
		}
	}
	verifCover("done")
}

// VerifH_C01_ipgenOverlap: two address streams of one generator are open at the same time (the next
// engine run starts while the previous stream is still pending): the second is drained first, then the
// first; each delivers every address of the subnet exactly once.  /ONES with more addresses than the
// 100-slot channel buffers; concrete execution with the engine's fixed random draws.
func VerifH_C01_ipgenOverlap() {
	ones := verifParam("ONES", 24)
	base := []byte{172, 20, 8, 0}
	mask := net.CIDRMask(ones, 32)
	ig := NewIPGenerator()
	size := 1 << uint(32-ones)
	r := &Range{DstSubnet: &net.IPNet{IP: net.IP(base), Mask: mask}}
	ch1, err1 := ig.IPs(context.Background(), r)
	verifYield()
	ch2, err2 := ig.IPs(context.Background(), r)
	verifAssert(err1 == nil && err2 == nil, "valid IPv4 subnet refused")
	if err1 != nil || err2 != nil {
		return
	}
	for k, ch := range []<-chan IPGetter{ch2, ch1} {
		seen := make([]bool, size)
		n := 0
		for g := range ch {
			ip, gerr := g.GetIP()
			verifAssert(gerr == nil && len(ip) == 4, "address generator produced an error element or a non-IPv4 address")
			if len(ip) != 4 {
				continue
			}
			verifAssert(ip[0] == 172 && ip[1] == 20, "address outside the target subnet")
			off := (int(ip[2])<<8 | int(ip[3])) - 8<<8
			if off >= 0 && off < size {
				verifAssert(!seen[off], "an address was handed out twice in one stream")
				seen[off] = true
			} else {
				verifAssert(false, "address outside the target subnet")
			}
			n++
		}
		if k == 0 {
			verifAssert(n == size, "the later of two overlapping address streams is not a complete pass")
		} else {
			verifAssert(n == size, "the earlier of two overlapping address streams is not a complete pass")
		}
	}
	verifCover("done")
}
