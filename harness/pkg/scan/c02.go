package scan

import (
	"context"
	"net"

	"github.com/v-byte-cpu/sx/pkg/ip"
)

// c02Num appends a decimal numeral of n solver-chosen digits and returns its value
// and whether it has a leading zero (which makes a dotted-quad field invalid).
func c02Num(label string, n int, dst *[]byte) (v uint64, lead0 bool) {
	for i := 0; i < n; i++ {
		d := ndU8(label) % 10
		if i == 0 && n > 1 && d == 0 {
			lead0 = true
		}
		*dst = append(*dst, '0'+d)
		v = v*10 + uint64(d)
	}
	return
}

// VerifH_C02_target: target strings built from templates with solver-chosen digits:
//
//	FORM 0: a.b.c.d        FORM 1: a.b.c.d/p      (IPv4; octets and prefix of 1..3 digits)
//	FORM 2: ::ffff:a.b.c.d FORM 3: ::ffff:a.b.c.d/p  FORM 4: hhhh::h/p  FORM 5: ::h  (IPv6 forms)
//
// An accepted target must denote exactly the IPv4 set written; every IPv6 form is refused
// (an IPv4-mapped host may also be taken as the embedded IPv4 address); nothing crashes,
// and the addresses the generator then emits lie inside the denoted set.
func VerifH_C02_target() {
	c01Reset(2)
	form := verifParam("FORM", 1)
	var s []byte
	var oct [4]uint64
	bad := false
	quad := func() {
		for i := 0; i < 4; i++ {
			if i > 0 {
				s = append(s, '.')
			}
			cnt := verifParam("ND", 1) // digits of the first three octets; the last one: every count
			if i == 3 {
				nd := ndU8("octetDigits")
				verifAssume(nd >= 1 && nd <= 3)
				cnt = int(verifConcretize(uint64(nd)))
			}
			v, l0 := c02Num("o", cnt, &s)
			oct[i] = v
			if v > 255 || l0 {
				bad = true
			}
		}
	}
	prefix := func() uint64 {
		s = append(s, '/')
		cnt := verifParam("PD", 0)
		if cnt == 0 {
			nd := ndU8("prefixDigits")
			verifAssume(nd >= 1 && nd <= 3)
			cnt = int(verifConcretize(uint64(nd)))
		}
		v, _ := c02Num("p", cnt, &s) // "/08" is read as /8 by the parser: value as written
		return v
	}
	pfx := uint64(32)
	v6 := false
	switch form {
	case 0:
		quad()
	case 1:
		quad()
		pfx = prefix()
		if pfx > 32 {
			bad = true
		}
	case 2:
		s = append(s, "::ffff:"...)
		quad()
		v6 = true
	case 3:
		s = append(s, "::ffff:"...)
		quad()
		prefix()
		v6 = true
	case 4:
		s = append(s, "2001:db8::"...)
		c02Num("h", 1, &s)
		prefix()
		v6 = true
	case 5:
		s = append(s, "::"...)
		c02Num("h", 1, &s)
		v6 = true
	}
	ipnet, err := ip.ParseIPNet(string(s))
	if err != nil {
		verifCover("refused")
		verifAssert(bad || v6, "a well-formed IPv4 target was refused")
		return
	}
	verifCover("accepted")
	verifAssert(ipnet != nil, "no error and no network")
	if ipnet == nil {
		return
	}
	if v6 {
		// only an IPv4-mapped host may be taken, as its embedded IPv4 address
		verifAssert(form == 2 && !bad, "an IPv6 target (or IPv6 CIDR) was accepted")
		if form != 2 || bad {
			return
		}
	} else {
		verifAssert(!bad, "a malformed IPv4 target (octet > 255, leading zero or prefix > 32) was accepted")
		if bad {
			return
		}
	}
	verifAssert(len(ipnet.IP) == 4 && len(ipnet.Mask) == 4, "accepted target is not a 4-byte IPv4 network")
	if len(ipnet.IP) != 4 || len(ipnet.Mask) != 4 {
		return
	}
	want := uint32(oct[0])<<24 | uint32(oct[1])<<16 | uint32(oct[2])<<8 | uint32(oct[3])
	var m32 uint32
	if pfx > 0 {
		m32 = ^uint32(0) << (32 - pfx)
	}
	verifAssert(c01U32(ipnet.Mask) == m32, "mask is not the prefix written")
	verifAssert(c01U32(ipnet.IP)&m32 == want&m32, "network is not the address written")
	// what gets probed
	ch, gerr := NewIPGenerator().IPs(context.Background(), &Range{DstSubnet: ipnet})
	verifAssert(gerr == nil, "generator refused an accepted target")
	if gerr != nil {
		return
	}
	for g := range ch {
		a, e := g.GetIP()
		verifAssert(e == nil && len(a) == 4, "generator emitted something that is not an IPv4 address")
		if e == nil && len(a) == 4 {
			verifAssert(c01U32(a)&m32 == want&m32, "an address outside the target set would be probed")
		}
	}
}

// VerifH_C02_garbage: every string of length L is refused or denotes an IPv4 network.
func VerifH_C02_garbage() {
	L := verifParam("L", 2)
	b := ndBytes("s", L)
	for _, c := range b {
		verifAssume(c < 0x80)
	}
	ipnet, err := ip.ParseIPNet(string(b))
	if err != nil {
		verifCover("refused")
		return
	}
	verifCover("accepted")
	verifAssert(ipnet != nil && len(ipnet.IP) == 4 && len(ipnet.Mask) == 4, "accepted target is not a 4-byte IPv4 network")
	_ = net.IPv4len
}
