package scan

import (
	"context"
	"errors"
	"fmt"
	"time"
)

type c08Result struct{ id int }

func (r *c08Result) String() string               { return fmt.Sprint("r", r.id) }
func (r *c08Result) ID() string                   { return fmt.Sprint("r", r.id) }
func (r *c08Result) MarshalJSON() ([]byte, error) { return []byte(fmt.Sprint(r.id)), nil }

type c08Err struct {
	id    int
	cause error
}

func (e *c08Err) Error() string { return fmt.Sprint("probe ", e.id, " failed") }
func (e *c08Err) Unwrap() error { return e.cause }

// outcome of a probe: 0 nothing detected, 1 a record, 2 an error
type c08Scanner struct {
	outcome  []int
	started  []int
	finished int
	latency  []time.Duration
	cancelAt int // cancel the scan context when this probe starts (-1: never)
	cancel   func()
	gate     chan struct{}
	gateAt   int
	errKinds bool
}

func (s *c08Scanner) Scan(ctx context.Context, r *Request) (Result, error) {
	id := int(r.DstPort)
	s.started = append(s.started, id)
	if id == s.cancelAt && s.cancel != nil {
		s.cancel()
	}
	if s.gate != nil && len(s.started) == s.gateAt {
		close(s.gate)
	}
	if id < len(s.latency) && s.latency[id] > 0 {
		time.Sleep(s.latency[id])
	} else {
		verifYield()
	}
	s.finished++
	switch s.outcome[id] {
	case 1:
		return &c08Result{id}, nil
	case 2:
		e := &c08Err{id: id}
		if s.errKinds {
			// a probe's own failure may wrap anything - also its own time-out while the scan is alive
			switch verifConcretize(uint64(ndU8("errKind") % 3)) {
			case 1:
				e.cause = context.DeadlineExceeded
			case 2:
				e.cause = context.Canceled
			}
		}
		return nil, e
	}
	return nil, nil
}

type c08Gen struct {
	reqs     []*Request
	holdOpen bool // the source does not end by itself (stdin, a large range): only cancellation ends it
}

func (g *c08Gen) GenerateRequests(ctx context.Context, r *Range) (<-chan *Request, error) {
	out := make(chan *Request)
	go func() {
		defer close(out)
		for _, rq := range g.reqs {
			if g.holdOpen {
				out <- rq // a source blocked in a read does not watch the context
				continue
			}
			select {
			case out <- rq:
			case <-ctx.Done():
				return
			}
		}
		if g.holdOpen {
			time.Sleep(5 * time.Second) // blocked reading a quiet input
		}
	}()
	return out, nil
}

var errC08Req = errors.New("bad target entry")

// VerifH_C08_engine: K requests (each: good target with outcome none/record/error, or an error
// request), W workers, symbolic probe latencies: every target probed once, every outcome
// reported once, completion only after the last probe.
func VerifH_C08_engine() {
	K, W := verifParam("K", 2), verifParam("W", 2)
	sc := &c08Scanner{cancelAt: -1, errKinds: verifParam("ERRKINDS", 0) == 1}
	var reqs []*Request
	isErrReq := make([]bool, K)
	for i := 0; i < K; i++ {
		o := ndU8("outcome")
		verifAssume(o < 4)
		oc := int(verifConcretize(uint64(o)))
		if oc == 3 {
			isErrReq[i] = true
			sc.outcome = append(sc.outcome, 0)
			reqs = append(reqs, &Request{Err: errC08Req, DstPort: uint16(i)})
		} else {
			sc.outcome = append(sc.outcome, oc)
			reqs = append(reqs, &Request{DstPort: uint16(i)})
		}
		lat := time.Duration(verifConcretize(uint64(ndU8("latency")&1))) * time.Millisecond
		sc.latency = append(sc.latency, lat)
	}
	ctx, cancel := context.WithCancel(context.Background())
	defer cancel()
	results := NewResultChan(ctx, 1000)
	eng := NewScanEngine(&c08Gen{reqs: reqs}, sc, results, WithScanWorkerCount(W))
	var recs []int
	collected := make(chan struct{})
	go func() {
		defer close(collected)
		for r := range eng.Results() {
			recs = append(recs, r.(*c08Result).id)
		}
	}()
	done, errc := eng.Start(ctx, &Range{})
	var errs []error
	errsDone := make(chan struct{})
	go func() {
		defer close(errsDone)
		for e := range errc {
			errs = append(errs, e)
		}
	}()
	<-done
	wantProbes := 0
	for i := range reqs {
		if !isErrReq[i] {
			wantProbes++
		}
	}
	verifAssert(sc.finished == wantProbes, "completion signalled before every probe had finished")
	<-errsDone
	time.Sleep(time.Millisecond) // quiescence: the result copier has moved everything
	cancel()
	<-collected
	// each target probed exactly once
	cnt := make([]int, K)
	for _, id := range sc.started {
		cnt[id]++
	}
	wantRec, wantErr, wantReqErr := 0, 0, 0
	for i := 0; i < K; i++ {
		if isErrReq[i] {
			verifAssert(cnt[i] == 0, "an error entry was probed")
			wantReqErr++
			continue
		}
		verifAssert(cnt[i] == 1, "a target was not probed exactly once")
		switch sc.outcome[i] {
		case 1:
			wantRec++
		case 2:
			wantErr++
		}
	}
	verifAssert(len(recs) == wantRec, "records are not one per detecting probe")
	seen := make([]bool, K)
	for _, id := range recs {
		verifAssert(sc.outcome[id] == 1 && !seen[id], "a record for a probe that detected nothing, or a duplicate record")
		seen[id] = true
	}
	probeErrs, reqErrs := 0, 0
	for _, e := range errs {
		if e == errC08Req {
			reqErrs++
		} else if pe, ok := e.(*c08Err); ok {
			verifAssert(sc.outcome[pe.id] == 2, "an error record for a probe that did not fail")
			probeErrs++
		} else {
			verifAssert(false, "unknown error on the error stream")
		}
	}
	verifAssert(probeErrs == wantErr, "error records are not one per failed probe")
	verifAssert(reqErrs == wantReqErr, "error entries are not reported once each")
	verifCover("done")
}

// VerifH_C08_errBurst: more failed probes than the 100-slot error buffer holds while the
// consumer is busy: every failure is still reported exactly once.
func VerifH_C08_errBurst() {
	K := verifParam("K", 103)
	sc := &c08Scanner{cancelAt: -1, gate: make(chan struct{}), gateAt: 101}
	var reqs []*Request
	for i := 0; i < K; i++ {
		sc.outcome = append(sc.outcome, 2)
		reqs = append(reqs, &Request{DstPort: uint16(i)})
	}
	ctx, cancel := context.WithCancel(context.Background())
	defer cancel()
	eng := NewScanEngine(&c08Gen{reqs: reqs}, sc, NewResultChan(ctx, 1000), WithScanWorkerCount(verifParam("W", 1)))
	done, errc := eng.Start(ctx, &Range{})
	<-sc.gate // the consumer only starts reading once the last probe has started
	time.Sleep(time.Millisecond)
	n := 0
	for range errc {
		n++
	}
	<-done
	verifAssert(n == K, "failed probes were not reported exactly once each when more than 100 errors were pending")
	verifCover("done")
}

// VerifH_C12_genericCancel: the scan context is cancelled when probe number C starts while
// the request source stays open (stdin, huge range): completion is still signalled promptly.
func VerifH_C12_genericCancel() {
	verifNow()
	K, W := verifParam("K", 3), verifParam("W", 2)
	c := ndU8("cancelAt")
	verifAssume(int(c) < K)
	sc := &c08Scanner{cancelAt: int(verifConcretize(uint64(c)))}
	var reqs []*Request
	for i := 0; i < K; i++ {
		o := ndU8("outcome")
		verifAssume(o < 3)
		sc.outcome = append(sc.outcome, int(verifConcretize(uint64(o))))
		reqs = append(reqs, &Request{DstPort: uint16(i)})
	}
	ctx, cancel := context.WithCancel(context.Background())
	defer cancel()
	sc.cancel = cancel
	eng := NewScanEngine(&c08Gen{reqs: reqs, holdOpen: true}, sc, NewResultChan(ctx, 1000), WithScanWorkerCount(W))
	go func() {
		for range eng.Results() {
		}
	}()
	if ndBool("cancelBeforeStart") {
		cancel() // Ctrl-C before the first probe
		verifCover("pre-cancelled")
	}
	done, errc := eng.Start(ctx, &Range{})
	go func() {
		for range errc {
		}
	}()
	<-done
	verifAssert(verifNow() < int64(time.Second), "after cancellation the engine kept waiting for the request source to end")
	for range errc {
	}
	verifCover("done")
}

// VerifH_C12_putBlocked: the result consumer is gone and the result buffers (capacity 1) are full,
// so workers are parked handing over their results; then the scan is cancelled: completion must
// still be signalled and the error stream must end.
func VerifH_C12_putBlocked() {
	verifNow()
	K, W := verifParam("K", 6), verifParam("W", 2)
	sc := &c08Scanner{cancelAt: -1}
	var reqs []*Request
	for i := 0; i < K; i++ {
		sc.outcome = append(sc.outcome, 1)
		reqs = append(reqs, &Request{DstPort: uint16(i)})
	}
	ctx, cancel := context.WithCancel(context.Background())
	defer cancel()
	eng := NewScanEngine(&c08Gen{reqs: reqs}, sc, NewResultChan(ctx, 1), WithScanWorkerCount(W))
	done, errc := eng.Start(ctx, &Range{})
	go func() {
		time.Sleep(time.Millisecond) // by now every worker is parked: nobody reads results
		cancel()
	}()
	<-done
	for range errc {
	}
	verifAssert(verifNow() < int64(time.Second), "after cancellation the engine kept waiting for a result consumer")
	verifCover("done")
}

// VerifH_C12_mergeErr: the real mergeErrChan with errors queued and in flight when the context
// is cancelled: no send on a closed channel, the merged stream ends.
func VerifH_C12_mergeErr() {
	ctx, cancel := context.WithCancel(context.Background())
	c1, c2 := make(chan error, 2), make(chan error, 2)
	n1, n2 := int(verifConcretize(uint64(ndU8("n1")%3))), int(verifConcretize(uint64(ndU8("n2")%3)))
	for i := 0; i < n1; i++ {
		c1 <- errC08Req
	}
	for i := 0; i < n2; i++ {
		c2 <- errC08Req
	}
	if ndBool("closeInputs") {
		close(c1)
		close(c2)
	}
	out := mergeErrChan(ctx, c1, c2)
	go func() {
		verifYield()
		cancel()
	}()
	n := 0
	for range out {
		n++
	}
	verifAssert(n <= n1+n2, "merged stream invented an error")
	verifCover("done")
}

// VerifH_C08_resultChan: the real result channel with a small capacity and an output side that
// starts late: K records put by a probe worker all come out, once each, in order.
func VerifH_C08_resultChan() {
	K := verifParam("K", 5)
	ctx, cancel := context.WithCancel(context.Background())
	rc := NewResultChan(ctx, verifParam("CAP", 1))
	go func() {
		for i := 0; i < K; i++ {
			rc.Put(&c08Result{i})
			if ndBool("pauseAfterPut") {
				verifYield()
			}
		}
	}()
	time.Sleep(time.Millisecond) // a stalled output: everything that fits is queued
	var got []int
	for len(got) < K {
		select {
		case r, ok := <-rc.Chan():
			if !ok {
				verifAssert(false, "result stream ended although the scan is still alive")
				cancel()
				return
			}
			got = append(got, r.(*c08Result).id)
		case <-time.After(time.Second):
			verifAssert(false, "a record that was put is never delivered (lost under back-pressure)")
			cancel()
			return
		}
	}
	for i, id := range got {
		verifAssert(id == i, "records reordered, duplicated or replaced under back-pressure")
	}
	cancel()
	verifCover("done")
}
