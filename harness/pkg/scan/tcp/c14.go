package tcp

import "strconv"

// VerifH_C14_tcpJSON: the generated encoder on a result whose string fields are arbitrary ASCII
// strings of L bytes (quotes, backslashes, control characters included) and any port.
func VerifH_C14_tcpJSON() {
	L := verifParam("L", 1)
	which := verifParam("FIELD", 0)
	r := &ScanResult{ScanType: "tcpsyn", IP: "10.0.0.1", Port: ndU16("port"), Flags: "sa"}
	sym := c14ASCII("s", L)
	switch which {
	case 0:
		r.IP = string(sym)
	case 1:
		r.Flags = string(sym)
	case 2:
		r.ScanType = string(sym)
	}
	out, err := r.MarshalJSON()
	verifAssert(err == nil, "encoder failed")
	for _, c := range out {
		verifAssert(c != '\n' && c != '\r', "raw line break inside a record")
	}
	kvs, ok := c14Object(out)
	verifAssert(ok, "output is not one complete JSON object (bad escaping?)")
	if !ok {
		return
	}
	wantKeys := []string{"scan", "ip", "port", "flags"}
	if len(r.Flags) == 0 {
		wantKeys = wantKeys[:3]
	}
	verifAssert(len(kvs) == len(wantKeys), "object does not have exactly the documented keys")
	for i, kv := range kvs {
		if i >= len(wantKeys) {
			break
		}
		verifAssert(kv.key == wantKeys[i], "unexpected key")
		switch kv.key {
		case "scan":
			verifAssert(kv.isStr && c14SameBytes(kv.str, c14Expect([]byte(r.ScanType))), "scan type does not decode back")
		case "ip":
			verifAssert(kv.isStr && c14SameBytes(kv.str, c14Expect([]byte(r.IP))), "ip does not decode back")
		case "flags":
			verifAssert(kv.isStr && c14SameBytes(kv.str, c14Expect([]byte(r.Flags))), "flags do not decode back")
		case "port":
			verifAssert(!kv.isStr && c14SameBytes(kv.raw, []byte(strconv.Itoa(int(r.Port)))), "port does not decode back")
		}
	}
	verifCover("done")
}
