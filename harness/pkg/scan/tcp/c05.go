package tcp

import (
	"net"

	"github.com/google/gopacket"
	"github.com/v-byte-cpu/sx/pkg/scan"
)

// ---- environment seams: math/rand returns any value of its contract ----

var c05Rand []int

func verifSeam_Intn(n int) int {
	v := ndInt("rand.Intn")
	verifAssume(v >= 0 && v < n)
	c05Rand = append(c05Rand, v)
	return v
}

var c05Seq uint32

func verifSeam_Uint32() uint32 {
	c05Seq = ndU32("rand.Uint32")
	return c05Seq
}

// ---- RFC 1071 reference ----

// c05Sum adds the big-endian 16-bit words of b (odd tail padded with a zero byte), RFC 1071.
func c05Sum(b []byte) uint32 {
	var s uint32
	for i := 0; i+1 < len(b); i += 2 {
		s += uint32(b[i])*256 + uint32(b[i+1])
	}
	if len(b)%2 == 1 {
		s += uint32(b[len(b)-1]) * 256
	}
	return s
}

// c05Fold adds the carries back in until none is left (end-around carry).
func c05Fold(s uint32) uint16 {
	for s > 0xffff {
		s = (s >> 16) + (s & 0xffff)
	}
	return uint16(s)
}

func c05U16(b []byte) uint16 { return uint16(b[0])<<8 | uint16(b[1]) }

func c05Eq(a, b []byte) bool {
	if len(a) != len(b) {
		return false
	}
	ok := true
	for i := range a {
		ok = verifAnd(ok, a[i] == b[i])
	}
	return ok
}

// VerifH_C05_tcp: every flag set, port, address, MAC and random draw; both link modes.
func VerifH_C05_tcp() {
	vpn := verifParam("VPN", 0) == 1
	c05Rand = nil
	f := &PacketFiller{SYN: ndBool("syn"), ACK: ndBool("ack"), FIN: ndBool("fin"), RST: ndBool("rst"), PSH: ndBool("psh"),
		URG: ndBool("urg"), ECE: ndBool("ece"), CWR: ndBool("cwr"), NS: ndBool("ns"), vpnMode: vpn}
	if fp := verifParam("FPART", -1); fp >= 0 {
		// one of eight regions of the flag space per process (together: all 2^9 flag sets)
		verifAssume(f.SYN == (fp&1 != 0))
		verifAssume(f.ACK == (fp&2 != 0))
		verifAssume(f.FIN == (fp&4 != 0))
	}
	src := ndBytes("src", 4)
	dst4 := ndBytes("dst", 4)
	dst := net.IP(dst4)
	if verifParam("DST16", 0) == 1 {
		dst = net.IPv4(dst4[0], dst4[1], dst4[2], dst4[3]) // the 16-byte spelling net.ParseIP produces
	}
	smac, dmac := ndBytes("smac", 6), ndBytes("dmac", 6)
	dport := ndU16("dport")
	r := &scan.Request{SrcIP: net.IP(src), DstIP: dst, SrcMAC: smac, DstMAC: dmac, DstPort: dport}
	buf := gopacket.NewSerializeBuffer()
	err := f.Fill(buf, r)
	verifAssert(err == nil, "Fill failed for a well-formed request")
	if err != nil {
		return
	}
	b := buf.Bytes()
	off := 0
	if !vpn {
		verifAssert(len(b) == 14+20+32, "Ethernet frame length is not 14+20+32")
		if len(b) != 66 {
			return
		}
		verifAssert(c05Eq(b[0:6], dmac), "Ethernet destination is not the requested MAC")
		verifAssert(c05Eq(b[6:12], smac), "Ethernet source is not the requested MAC")
		verifAssert(b[12] == 0x08 && b[13] == 0x00, "EtherType is not IPv4")
		off = 14
	} else {
		verifAssert(len(b) == 20+32, "raw-IP datagram length is not 20+32")
		if len(b) != 52 {
			return
		}
	}
	ip := b[off : off+20]
	tc := b[off+20:]
	verifAssert(ip[0] == 0x45, "IPv4 version/IHL is not 4/5")
	verifAssert(c05U16(ip[2:4]) == 52, "IPv4 total length is not the datagram length")
	verifAssert(len(c05Rand) == 2, "unexpected number of random draws")
	if len(c05Rand) == 2 {
		verifAssert(int(c05U16(ip[4:6])) == 1+c05Rand[0] && c05U16(ip[4:6]) != 0, "IPv4 id is not the spoofed non-zero value")
		verifAssert(int(c05U16(tc[0:2])) == 32768+c05Rand[1] && c05U16(tc[0:2]) >= 32768 && c05U16(tc[0:2]) <= 60999, "source port outside 32768..60999")
	}
	verifAssert(ip[6] == 0x40 && ip[7] == 0, "IPv4 flags/fragment offset is not DF/0")
	verifAssert(ip[8] == 64, "TTL is not 64")
	verifAssert(ip[9] == 6, "protocol is not TCP")
	verifAssert(c05Eq(ip[12:16], src), "IPv4 source is not the requested address")
	verifAssert(c05Eq(ip[16:20], dst4), "IPv4 destination is not the requested address")
	// header checksum
	ipz := append([]byte{}, ip...)
	ipz[10], ipz[11] = 0, 0
	verifAssert(c05U16(ip[10:12]) == ^c05Fold(c05Sum(ipz)), "IPv4 header checksum wrong")
	// TCP
	verifAssert(c05U16(tc[2:4]) == dport, "TCP destination port is not the requested port")
	verifAssert(uint32(tc[4])<<24|uint32(tc[5])<<16|uint32(tc[6])<<8|uint32(tc[7]) == c05Seq, "sequence number is not the drawn value")
	verifAssert(tc[8] == 0 && tc[9] == 0 && tc[10] == 0 && tc[11] == 0, "acknowledgement number not zero")
	verifAssert(tc[12]>>4 == 8, "TCP data offset is not 8 words")
	verifAssert(tc[12]&0x0e == 0, "reserved bits set")
	verifAssert((tc[12]&1 != 0) == f.NS, "NS bit differs from the request")
	verifAssert((tc[13]&0x01 != 0) == f.FIN, "FIN bit differs from the request")
	verifAssert((tc[13]&0x02 != 0) == f.SYN, "SYN bit differs from the request")
	verifAssert((tc[13]&0x04 != 0) == f.RST, "RST bit differs from the request")
	verifAssert((tc[13]&0x08 != 0) == f.PSH, "PSH bit differs from the request")
	verifAssert((tc[13]&0x10 != 0) == f.ACK, "ACK bit differs from the request")
	verifAssert((tc[13]&0x20 != 0) == f.URG, "URG bit differs from the request")
	verifAssert((tc[13]&0x40 != 0) == f.ECE, "ECE bit differs from the request")
	verifAssert((tc[13]&0x80 != 0) == f.CWR, "CWR bit differs from the request")
	verifAssert(c05U16(tc[14:16]) == 64240, "window is not 64240")
	verifAssert(tc[18] == 0 && tc[19] == 0, "urgent pointer not zero")
	verifAssert(c05Eq(tc[20:29], []byte{2, 4, 0x05, 0xb4, 4, 2, 3, 3, 7}), "options are not MSS 1460, SACK-permitted, window scale 7")
	verifAssert(tc[29] == 0 && tc[30] == 0 && tc[31] == 0, "option padding is not end-of-list zeros")
	// TCP checksum over pseudo-header + segment
	tz := append([]byte{}, tc...)
	tz[16], tz[17] = 0, 0
	ps := append(append(append([]byte{}, src...), dst4...), 0, 6, 0, 32)
	verifAssert(c05U16(tc[16:18]) == ^c05Fold(c05Sum(ps)+c05Sum(tz)), "TCP checksum wrong")
	verifCover("done")
}
