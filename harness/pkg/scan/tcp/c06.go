package tcp

import (
	"net"

	"github.com/google/gopacket/layers"
	"github.com/v-byte-cpu/sx/pkg/scan"
)

type c06Results struct {
	got []scan.Result
	ch  chan scan.Result
}

func (r *c06Results) Put(x scan.Result)        { r.got = append(r.got, x) }
func (r *c06Results) Chan() <-chan scan.Result { return r.ch }

// c06FlagString is the reference rendering of the nine flag bits (byte 12 bit 0, byte 13).
func c06FlagString(b12, b13 byte) string {
	s := ""
	add := func(on bool, c string) {
		if on {
			s += c
		}
	}
	add(b13&0x02 != 0, "s")
	add(b13&0x10 != 0, "a")
	add(b13&0x01 != 0, "f")
	add(b13&0x04 != 0, "r")
	add(b13&0x08 != 0, "p")
	add(b13&0x20 != 0, "u")
	add(b13&0x40 != 0, "e")
	add(b13&0x80 != 0, "c")
	add(b12&0x01 != 0, "n")
	return s
}

// c06ValidReply builds a well-formed TCP reply (Ethernet or raw IP) with solver-chosen fields.
func c06ValidReply(vpn bool) (frame []byte, ip []byte, port uint16, b12, b13 byte) {
	ip = ndBytes("A.src", 4)
	port = ndU16("A.port")
	b13 = ndU8("A.flags")
	b12 = 0x50 | (ndU8("A.ns") & 1)
	var f []byte
	if !vpn {
		f = append(f, 0x10, 0x11, 0x12, 0x13, 0x14, 0x15, 0x00, 0x0c, 0x29, 0x04, 0x05, 0x06, 0x08, 0x00)
	}
	f = append(f, 0x45, 0, 0, 40, 0x12, 0x34, 0x40, 0, 64, 6, 0, 0)
	f = append(f, ip...)
	f = append(f, 192, 168, 0, 3)
	f = append(f, byte(port>>8), byte(port), 0x80, 0x00, 0, 0, 0, 1, 0, 0, 0, 2, b12, b13, 0xff, 0xff, 0, 0, 0, 0)
	return f[:len(f):len(f)], ip, port, b12, b13
}

// c06BitFlags renders the nine flag bits as a fixed-length string without branching
// (the real AllFlags printer is checked on its own in VerifH_C06_tcpReply).
func c06BitFlags(t *layers.TCP) string {
	bit := func(b bool) byte {
		return byte(verifIte(b, '1', '0'))
	}
	return string([]byte{bit(t.SYN), bit(t.ACK), bit(t.FIN), bit(t.RST), bit(t.PSH), bit(t.URG), bit(t.ECE), bit(t.CWR), bit(t.NS)})
}

func c06BitFlagsRef(b12, b13 byte) string {
	bit := func(b bool) byte {
		return byte(verifIte(b, '1', '0'))
	}
	return string([]byte{bit(b13&0x02 != 0), bit(b13&0x10 != 0), bit(b13&0x01 != 0), bit(b13&0x04 != 0), bit(b13&0x08 != 0),
		bit(b13&0x20 != 0), bit(b13&0x40 != 0), bit(b13&0x80 != 0), bit(b12&0x01 != 0)})
}

// VerifH_C06_tcpReply: a well-formed reply with solver-chosen fields is reported once, with its own fields.
func VerifH_C06_tcpReply() {
	vpn := verifParam("VPN", 0) == 1
	res := &c06Results{}
	sm := NewScanMethod(SYNScanType, nil, res, WithScanVPNmode(vpn), WithPacketFlagsFunc(AllFlags))
	a, aip, aport, a12, a13 := c06ValidReply(vpn)
	err := sm.ProcessPacketData(a, nil)
	verifAssert(err == nil, "valid TCP reply gave an error")
	verifAssert(len(res.got) == 1, "valid TCP reply not reported exactly once")
	if len(res.got) == 1 {
		r := res.got[0].(*ScanResult)
		verifAssert(r.IP == net.IP(aip).String(), "record address is not the reply's source address")
		verifAssert(r.Port == aport, "record port is not the reply's source port")
		verifAssert(r.Flags == c06FlagString(a12, a13), "record flags are not the reply's flags")
		verifAssert(r.ScanType == SYNScanType, "record scan type wrong")
	}
	verifCover("done")
}

// VerifH_C06_tcp: a valid reply A (seeds the reused decoder structs), then an arbitrary
// frame B of LEN bytes, cap == len as afpacket delivers it.
func VerifH_C06_tcp() {
	n := verifParam("LEN", 54)
	vpn := verifParam("VPN", 0) == 1
	res := &c06Results{}
	sm := NewScanMethod(SYNScanType, nil, res, WithScanVPNmode(vpn), WithPacketFlagsFunc(c06BitFlags))
	var a []byte
	if !vpn {
		a = append(a, 0x10, 0x11, 0x12, 0x13, 0x14, 0x15, 0x00, 0x0c, 0x29, 0x04, 0x05, 0x06, 0x08, 0x00)
	}
	a = append(a, 0x45, 0, 0, 40, 0x12, 0x34, 0x40, 0, 64, 6, 0, 0, 192, 168, 0, 2, 192, 168, 0, 3,
		0, 22, 0x80, 0x00, 0, 0, 0, 1, 0, 0, 0, 2, 0x50, 0x12, 0xff, 0xff, 0, 0, 0, 0)
	err := sm.ProcessPacketData(a[:len(a):len(a)], nil)
	verifAssert(err == nil && len(res.got) == 1, "valid TCP reply not reported exactly once")
	first := res.got
	res.got = nil
	b := ndBytes("B", n)
	b = b[:n:n]
	c06Partition(b, vpn, 6)
	_ = sm.ProcessPacketData(b, nil)
	if len(first) == 1 {
		r := first[0].(*ScanResult)
		verifAssert(r.IP == "192.168.0.2" && r.Port == 22 && r.Flags == c06BitFlagsRef(0x50, 0x12),
			"an already emitted record changed when a later frame was processed (shared storage)")
	}
	verifAssert(len(res.got) <= 1, "more than one record for one frame")
	if len(res.got) == 0 {
		verifCover("no-record")
		return
	}
	verifCover("record")
	r := res.got[0].(*ScanResult)
	off := 0
	if !vpn {
		off = 14
		wfEth := n >= 14 && b[12] == 0x08 && b[13] == 0x00
		verifAssert(wfEth, "record for a frame that is not Ethernet/IPv4")
		if !wfEth {
			return
		}
	}
	verifAssert(n >= off+20, "record for a frame without a complete IPv4 header")
	if n < off+20 {
		return
	}
	ihl := int(verifConcretize(uint64(b[off] & 0x0f)))
	tot := int(b[off+2])<<8 | int(b[off+3])
	avail := n - off
	verifAssert(ihl >= 5 && ihl*4 <= avail, "record for a frame whose IPv4 header length is invalid")
	verifAssert(b[off+9] == 6, "record for a frame whose IPv4 protocol is not TCP (nested or other protocol)")
	fragOff := (int(b[off+6])&0x1f)<<8 | int(b[off+7])
	verifAssert(fragOff == 0 && b[off+6]&0x20 == 0, "record for an IPv4 fragment")
	if !(ihl >= 5 && ihl*4 <= avail) {
		return
	}
	t := off + ihl*4
	if tot == 0 {
		tot = avail // total length 0: segmentation-offload convention, the captured length counts
	}
	verifAssert(tot >= ihl*4+20 && t+20 <= n, "record for a frame without a complete TCP header inside the datagram")
	if t+20 > n {
		return
	}
	verifAssert(b[t+12]>>4 >= 5, "record for a TCP header with data offset < 5")
	verifAssert(r.IP == net.IP(b[off+12:off+16]).String(), "record address is not this frame's source address (left over from an earlier frame?)")
	verifAssert(r.Port == uint16(b[t])<<8|uint16(b[t+1]), "record port is not this frame's source port (left over from an earlier frame?)")
	verifAssert(r.Flags == c06BitFlagsRef(b[t+12], b[t+13]), "record flags are not this frame's flags (left over from an earlier frame?)")
}

// c06Partition restricts B to one region of the frame space (PART); the regions of one
// LEN together cover every byte string of that length, each is explored by its own process.
func c06Partition(b []byte, vpn bool, proto byte) {
	part := verifParam("PART", 0)
	if part == 0 {
		return
	}
	off := 14
	if vpn {
		off = 0
	}
	if len(b) < off+20 {
		// short frames: a single region (the first one of the mode)
		first := 1
		if vpn {
			first = 2
		}
		verifAssume(part == first)
		return
	}
	isIP := vpn || (b[12] == 0x08 && b[13] == 0x00)
	if isIP {
		// bound: outer IPv4 header with at most (MAXIHL-5)*4 option bytes
		verifAssume(int(b[off]&0x0f) <= verifParam("MAXIHL", 15))
	}
	ihl5 := b[off]&0x0f == 5
	pr := b[off+9]
	switch part {
	case 1:
		verifAssume(!isIP)
	case 2:
		verifAssume(isIP && pr == proto && ihl5)
	case 3:
		verifAssume(isIP && pr == proto && !ihl5)
	case 4:
		verifAssume(isIP && pr == 4)
		if verifParam("INNER", 0) == 1 && len(b) >= off+40 {
			// nested obligations: the inner packet is itself an unfragmented IPv4 header (IHL 5) of the scanned protocol
			verifAssume(ihl5 && b[off+20] == 0x45 && b[off+29] == proto && b[off+26]&0x3f == 0 && b[off+27] == 0)
			in := len(b) - off - 20
			verifAssume(b[off+22] == byte(in>>8) && b[off+23] == byte(in))
		}
	case 5:
		verifAssume(isIP && pr != 4 && pr != proto)
	}
}

// VerifH_C06_tcpHistory3: a valid reply from one host, then a frame from a solver-chosen host
// that decodes but yields no record (IPv4/UDP), then a valid reply with solver-chosen fields:
// the last record carries the last frame's own fields.
func VerifH_C06_tcpHistory3() {
	vpn := verifParam("VPN", 0) == 1
	res := &c06Results{}
	sm := NewScanMethod(SYNScanType, nil, res, WithScanVPNmode(vpn), WithPacketFlagsFunc(c06BitFlags))
	var eth []byte
	if !vpn {
		eth = []byte{0x10, 0x11, 0x12, 0x13, 0x14, 0x15, 0x00, 0x0c, 0x29, 0x04, 0x05, 0x06, 0x08, 0x00}
	}
	a := append(append([]byte{}, eth...), 0x45, 0, 0, 40, 0x12, 0x34, 0x40, 0, 64, 6, 0, 0, 192, 168, 0, 2, 192, 168, 0, 3,
		0, 22, 0x80, 0x00, 0, 0, 0, 1, 0, 0, 0, 2, 0x50, 0x12, 0xff, 0xff, 0, 0, 0, 0)
	_ = sm.ProcessPacketData(a[:len(a):len(a)], nil)
	verifAssert(len(res.got) == 1, "valid TCP reply not reported exactly once")
	res.got = nil
	msrc := ndBytes("M.src", 4)
	mproto := ndU8("M.proto")
	verifAssume(mproto != 6 && mproto != 4 && mproto != 41 && mproto != 94)
	m := append(append([]byte{}, eth...), 0x45, 0, 0, 28, 0x12, 0x35, 0x40, 0, 64, mproto, 0, 0)
	m = append(append(m, msrc...), 192, 168, 0, 3, 0, 53, 0x80, 0x01, 0, 8, 0, 0)
	_ = sm.ProcessPacketData(m[:len(m):len(m)], nil)
	verifAssert(len(res.got) == 0, "a frame without a TCP header produced a record")
	res.got = nil
	c, cip, cport, c12, c13 := c06ValidReply(vpn)
	err := sm.ProcessPacketData(c, nil)
	verifAssert(err == nil && len(res.got) == 1, "valid TCP reply not reported exactly once")
	if len(res.got) == 1 {
		r := res.got[0].(*ScanResult)
		verifAssert(r.IP == net.IP(cip).String(), "record address is not the frame's own source address (left over from an earlier frame?)")
		verifAssert(r.Port == cport && r.Flags == c06BitFlagsRef(c12, c13), "record port/flags are not the frame's own")
	}
	verifCover("done")
}

// VerifH_C06_tcpReuse: the reader hands the next frame over in the SAME memory as the previous one
// (a zero-copy reader may): two valid replies with solver-chosen fields written into one buffer one
// after the other: each record carries its own frame's fields.
func VerifH_C06_tcpReuse() {
	vpn := verifParam("VPN", 0) == 1
	res := &c06Results{}
	sm := NewScanMethod(SYNScanType, nil, res, WithScanVPNmode(vpn), WithPacketFlagsFunc(c06BitFlags))
	a, aip, aport, a12, a13 := c06ValidReply(vpn)
	buf := make([]byte, len(a))
	copy(buf, a)
	err := sm.ProcessPacketData(buf, nil)
	verifAssert(err == nil && len(res.got) == 1, "valid TCP reply not reported exactly once")
	// what the first record said at the time
	var ip0 string
	if len(res.got) == 1 {
		ip0 = res.got[0].(*ScanResult).IP
		verifAssert(ip0 == net.IP(aip).String(), "record address is not the frame's own source address")
	}
	res.got = nil
	// second frame: other host, other port, same memory
	off := 14
	if vpn {
		off = 0
	}
	b4 := ndBytes("B.src", 4)
	bport := ndU16("B.port")
	copy(buf[off+12:off+16], b4)
	buf[off+20], buf[off+21] = byte(bport>>8), byte(bport)
	err = sm.ProcessPacketData(buf, nil)
	verifAssert(err == nil && len(res.got) == 1, "valid TCP reply not reported exactly once")
	if len(res.got) == 1 {
		r := res.got[0].(*ScanResult)
		verifAssert(r.IP == net.IP(b4).String(), "record address is not this frame's source address (remembered from the frame that was in this memory before?)")
		verifAssert(r.Port == bport && r.Flags == c06BitFlagsRef(a12, a13), "record port/flags are not this frame's")
	}
	_ = aport
	verifCover("done")
}

// VerifH_C06_tcpBurst: a burst of N valid replies from distinct hosts/ports while nobody takes the records
// (the consumer keeps every record it was handed and looks only at the end): record i still carries
// frame i's fields after all later frames were processed.  Concrete execution (N beyond any buffer size
// of the result path: 1000-slot channels), the first host's last octet and the port base are solver-chosen.
func VerifH_C06_tcpBurst() {
	n := verifParam("N", 2100)
	res := &c06Results{}
	sm := NewScanMethod(SYNScanType, nil, res, WithPacketFlagsFunc(c06BitFlagsRef2))
	base := ndU8("base")
	for i := 0; i < n; i++ {
		f := []byte{0x10, 0x11, 0x12, 0x13, 0x14, 0x15, 0x00, 0x0c, 0x29, 0x04, 0x05, 0x06, 0x08, 0x00,
			0x45, 0, 0, 40, 0x12, 0x34, 0x40, 0, 64, 6, 0, 0,
			10, byte(i >> 8), byte(i), base, 192, 168, 0, 3,
			byte((i + 1) >> 8), byte(i + 1), 0x80, 0x00, 0, 0, 0, 1, 0, 0, 0, 2, 0x50, 0x12, 0xff, 0xff, 0, 0, 0, 0}
		err := sm.ProcessPacketData(f[:len(f):len(f)], nil)
		verifAssert(err == nil, "valid TCP reply refused")
	}
	verifAssert(len(res.got) == n, "not exactly one record per valid reply")
	for i, x := range res.got {
		r, ok := x.(*ScanResult)
		if !ok || r == nil {
			verifAssert(false, "record of another type")
			continue
		}
		if i == 0 || i == 1 || i == n-1 || i == n-1001 || i == n-1000 || i == 999 || i == 1000 || i == 1001 || i%97 == 0 {
			verifAssert(r.IP == net.IPv4(10, byte(i>>8), byte(i), base).String() && r.Port == uint16(i+1),
				"a record queued behind later replies no longer carries its own frame's address and port")
		}
	}
	verifCover("done")
}

func c06BitFlagsRef2(t *layers.TCP) string { return "sa" }
