package tcp

import (
	"net"

	"github.com/google/gopacket/layers"

	"github.com/v-byte-cpu/sx/pkg/scan"
)

func c03Subnet() *net.IPNet {
	return &net.IPNet{IP: net.IPv4(192, 168, 0, 0).To4(), Mask: net.CIDRMask(24, 32)}
}

// VerifH_C03_tcp: filter text from the real BPFFilter / SYNACKBPFFilter, compiled by libpcap,
// composed with the real processor; every well-formed unfragmented frame of LEN bytes.
//
//	SCAN 0: SYN scan (SYNACKBPFFilter, filter SYN&&ACK)   SCAN 1: flag scans (BPFFilter, TrueFilter)
//	TGT bit0: subnet 192.168.0.0/24 given; bit1: port ranges 22 and 80-90 given
func VerifH_C03_tcp() {
	n := verifParam("LEN", 54)
	vpn := verifParam("VPN", 0) == 1
	syn := verifParam("SCAN", 0) == 0
	tgt := verifParam("TGT", 3)
	r := &scan.Range{}
	if tgt&1 != 0 {
		r.DstSubnet = c03Subnet()
	}
	if tgt&2 != 0 {
		r.Ports = []*scan.PortRange{{StartPort: 22, EndPort: 22}, {StartPort: 80, EndPort: 80}, {StartPort: 80, EndPort: 90}, {StartPort: 88, EndPort: 95}}
	}
	res := &c06Results{}
	var sm *ScanMethod
	var text string
	var snap int
	if syn {
		text, snap = SYNACKBPFFilter(r)
		sm = NewScanMethod(SYNScanType, nil, res, WithScanVPNmode(vpn), WithPacketFlagsFunc(EmptyFlags),
			WithPacketFilterFunc(func(p *layers.TCP) bool { return p.SYN && p.ACK }))
	} else {
		text, snap = BPFFilter(r)
		sm = NewScanMethod(FINScanType, nil, res, WithScanVPNmode(vpn), WithPacketFlagsFunc(c06BitFlags), WithPacketFilterFunc(TrueFilter))
	}
	prog, err := c03Compile(vpn, snap, text)
	verifAssert(err == nil, "libpcap rejects the filter expression")
	if err != nil {
		return
	}
	b := ndBytes("F", n)
	b = b[:n:n]
	off, ihl := c03WFIPv4(b, vpn, verifParam("MAXIHL", 6))
	t := off + ihl*4
	proto := b[off+9]
	isTCP := proto == 6
	if isTCP {
		// a well-formed TCP header: complete, data offset 5..15 inside the datagram, options parse
		verifAssume(t+20 <= n)
		d := b[t+12] >> 4
		verifAssume(d >= 5 && t+int(d)*4 <= n)
		doff := int(verifConcretize(uint64(d)))
		verifAssume(c03OptsOK(b[t+20:t+doff*4], 2))
		verifCover("tcp-frame")
	} else {
		verifAssume(proto != 4 && proto != 41 && proto != 94) // tunnels are not single well-formed chains
		verifCover("other-protocol")
	}
	passB := c03RunBPF(prog, b)
	perr := sm.ProcessPacketData(b, nil)
	passR := perr == nil && len(res.got) == 1
	verifAssert(len(res.got) <= 1, "more than one record for one frame")
	shape := false
	if isTCP {
		src := b[off+12 : off+16]
		sport := uint16(b[t])<<8 | uint16(b[t+1])
		inNet := tgt&1 == 0 || (src[0] == 192 && src[1] == 168 && src[2] == 0)
		inPorts := tgt&2 == 0 || sport == 22 || (sport >= 80 && sport <= 95)
		flagsOK := !syn || b[t+13] == 0x12
		shape = inNet && inPorts && flagsOK
		if passR {
			rec := res.got[0].(*ScanResult)
			verifAssert(rec.IP == net.IP(src).String(), "record address is not the frame's source address")
			verifAssert(rec.Port == sport, "record port is not the frame's source port")
			if syn {
				verifAssert(rec.Flags == "", "SYN scan record carries flags")
			} else {
				verifAssert(rec.Flags == c06BitFlagsRef(b[t+12], b[t+13]), "record flags are not the frame's flags")
			}
		}
	}
	if shape {
		verifCover("reply-shaped")
		verifAssert(passB, "a reply-shaped frame is dropped by the kernel filter")
		verifAssert(passR, "a reply-shaped frame is not reported by the processor")
	} else {
		verifAssert(!(passB && passR), "a frame that is not reply-shaped passes the filter and is reported")
	}
}
