package tcp

import (
	"net"

	"github.com/google/gopacket/layers"

	"github.com/v-byte-cpu/sx/pkg/scan"
)

func c03Subnet() *net.IPNet { return c03Subnets[0]() }

// port shapes (run parameter PORTS); the first is the one of the quick tier
var c03PortShapes = [][]*scan.PortRange{
	{{StartPort: 22, EndPort: 22}, {StartPort: 80, EndPort: 80}, {StartPort: 80, EndPort: 90}, {StartPort: 88, EndPort: 95}},
	{{StartPort: 1, EndPort: 65535}},
	{{StartPort: 0, EndPort: 65535}},
	{{StartPort: 0, EndPort: 0}, {StartPort: 65535, EndPort: 65535}},
	{{StartPort: 1, EndPort: 1024}, {StartPort: 32768, EndPort: 65534}},
	{{StartPort: 443, EndPort: 443}},
	{{StartPort: 1, EndPort: 10000}, {StartPort: 443, EndPort: 443}},                                  // 6: a range nested in an earlier, wider one
	{{StartPort: 100, EndPort: 200}, {StartPort: 150, EndPort: 160}, {StartPort: 201, EndPort: 300}},  // 7: nested and adjacent
	{{StartPort: 500, EndPort: 600}, {StartPort: 1, EndPort: 1000}, {StartPort: 1000, EndPort: 1001}}, // 8: unsorted, wider after narrower, touching
}

func c03InPorts(p uint16, rs []*scan.PortRange) bool {
	in := false
	for _, r := range rs {
		in = verifOr(in, verifAnd(p >= r.StartPort, p <= r.EndPort))
	}
	return in
}

// VerifH_C03_tcp: filter text from the real BPFFilter / SYNACKBPFFilter, compiled by libpcap,
// composed with the real processor; every well-formed unfragmented frame of LEN bytes.
//
//	SCAN 0: SYN scan (SYNACKBPFFilter, filter SYN&&ACK)   SCAN 1: flag scans (BPFFilter, TrueFilter)
//	TGT bit0: subnet 192.168.0.0/24 given; bit1: port ranges 22 and 80-90 given
func VerifH_C03_tcp() {
	n := verifParam("LEN", 54)
	vpn := verifParam("VPN", 0) == 1
	syn := verifParam("SCAN", 0) == 0
	tgt := verifParam("TGT", 3)
	r := &scan.Range{}
	if tgt&1 != 0 {
		r.DstSubnet = c03Subnets[verifParam("SUBNET", 0)]()
	}
	if tgt&2 != 0 {
		r.Ports = c03PortShapes[verifParam("PORTS", 0)]
	}
	res := &c06Results{}
	var sm *ScanMethod
	var text string
	var snap int
	if syn {
		text, snap = SYNACKBPFFilter(r)
		sm = NewScanMethod(SYNScanType, nil, res, WithScanVPNmode(vpn), WithPacketFlagsFunc(EmptyFlags),
			WithPacketFilterFunc(func(p *layers.TCP) bool { return p.SYN && p.ACK }))
	} else {
		text, snap = BPFFilter(r)
		sm = NewScanMethod(FINScanType, nil, res, WithScanVPNmode(vpn), WithPacketFlagsFunc(c06BitFlags), WithPacketFilterFunc(TrueFilter))
	}
	prog, err := c03Compile(vpn, snap, text)
	verifAssert(err == nil, "libpcap rejects the filter expression")
	if err != nil {
		return
	}
	b := ndBytes("F", n)
	b = b[:n:n]
	off, ihl := c03WFIPv4(b, vpn, verifParam("MAXIHL", 6))
	t := off + ihl*4
	proto := b[off+9]
	isTCP := proto == 6
	if isTCP {
		// a well-formed TCP header: complete, data offset 5..15 inside the datagram, options parse
		verifAssume(t+20 <= n)
		d := b[t+12] >> 4
		verifAssume(d >= 5 && t+int(d)*4 <= n)
		verifAssume(int(d) >= verifParam("MINDOFF", 5))
		doff := int(verifConcretize(uint64(d)))
		if verifParam("RROPT", 0) == 1 && doff > 5 {
			verifAssume(b[t+20] == 254 && int(b[t+21]) == doff*4-21) // one experimental option filling the area but its last byte
		}
		verifAssume(c03OptsOK(b[t+20:t+doff*4], 2))
		verifCover("tcp-frame")
	} else {
		verifAssume(proto != 4 && proto != 41 && proto != 94) // tunnels are not single well-formed chains
		verifCover("other-protocol")
	}
	captured, passB := c03Capture(prog, b) // the kernel cuts accepted frames to the filter's snap length
	passR := false
	if passB {
		perr := sm.ProcessPacketData(captured, nil)
		passR = perr == nil && len(res.got) == 1
	} else {
		// what the processor would do is still examined: the filter is an optimisation, not the oracle
		perr := sm.ProcessPacketData(b, nil)
		passR = perr == nil && len(res.got) == 1
	}
	verifAssert(len(res.got) <= 1, "more than one record for one frame")
	shape := false
	if isTCP {
		src := b[off+12 : off+16]
		sport := uint16(b[t])<<8 | uint16(b[t+1])
		inNet := tgt&1 == 0 || c03InNet(src, r.DstSubnet)
		inPorts := tgt&2 == 0 || c03InPorts(sport, r.Ports)
		flagsOK := !syn || b[t+13] == 0x12
		shape = inNet && inPorts && flagsOK
		if passR {
			rec := res.got[0].(*ScanResult)
			verifAssert(rec.IP == net.IP(src).String(), "record address is not the frame's source address")
			verifAssert(rec.Port == sport, "record port is not the frame's source port")
			if syn {
				verifAssert(rec.Flags == "", "SYN scan record carries flags")
			} else {
				verifAssert(rec.Flags == c06BitFlagsRef(b[t+12], b[t+13]), "record flags are not the frame's flags")
			}
		}
	}
	if shape {
		verifCover("reply-shaped")
		verifAssert(passB, "a reply-shaped frame is dropped by the kernel filter")
		verifAssert(passR, "a reply-shaped frame is not reported by the processor")
	} else {
		verifAssert(!(passB && passR), "a frame that is not reply-shaped passes the filter and is reported")
	}
	if passR && isTCP {
		// a later reply must not change the record already emitted
		rec := res.got[0].(*ScanResult)
		ip0, port0, flags0 := rec.IP, rec.Port, rec.Flags
		var f2 []byte
		if !vpn {
			f2 = append(f2, 0x10, 0x11, 0x12, 0x13, 0x14, 0x15, 0x00, 0x0c, 0x29, 0x04, 0x05, 0x07, 0x08, 0x00)
		}
		f2 = append(f2, 0x45, 0, 0, 40, 0x12, 0x34, 0x40, 0, 64, 6, 0, 0, 192, 168, 0, 9, 192, 168, 0, 3,
			0, 81, 0x80, 0x00, 0, 0, 0, 1, 0, 0, 0, 2, 0x50, 0x12, 0xff, 0xff, 0, 0, 0, 0)
		_ = sm.ProcessPacketData(f2[:len(f2):len(f2)], nil)
		verifAssert(rec.IP == ip0 && rec.Port == port0 && rec.Flags == flags0, "an already emitted record changed when a later frame was processed (shared storage)")
	}
}
