package scan

import (
	"context"
	"math/big"
	"net"
)

// ---- stub iterator behind the newRangeIterator / Int / Next seams ----
//
// The real permutation iterator is the subject of C04.  Here it is replaced, inside
// ipGenerator.IPs and portGenerator.Ports only, by an iterator that yields solver-chosen
// values i in [1,n]: whatever the walk order is, every element is some i in that range.

type c01Iter struct {
	n     int64
	vals  []*big.Int
	raw   []int64
	pos   int
	nexts int
}

var (
	c01Iters   []*c01Iter
	c01ByRI    = map[*rangeIterator]*c01Iter{}
	c01PerIter = 2
	c01FailNew = false
)

func c01Reset(perIter int) {
	c01Iters = nil
	c01ByRI = map[*rangeIterator]*c01Iter{}
	c01PerIter = perIter
}

func verifSeam_newRI(n int64) (*rangeIterator, error) {
	if n <= 0 || n > 1<<32+60 {
		return nil, errRangeSize
	}
	it := &c01Iter{n: n}
	k := c01PerIter
	if int64(k) > n {
		k = int(n)
	}
	for j := 0; j < k; j++ {
		v := int64(ndU64("iter"))
		verifAssume(v >= 1 && v <= n)
		it.raw = append(it.raw, v)
		it.vals = append(it.vals, big.NewInt(v))
	}
	ri := &rangeIterator{}
	c01ByRI[ri] = it
	c01Iters = append(c01Iters, it)
	return ri, nil
}

func verifSeam_riInt(ri *rangeIterator) *big.Int {
	it := c01ByRI[ri]
	return it.vals[it.pos]
}

func verifSeam_riNext(ri *rangeIterator) bool {
	it := c01ByRI[ri]
	it.nexts++
	if it.pos+1 < len(it.vals) {
		it.pos++
		return true
	}
	return false
}

func c01U32(b []byte) uint32 {
	return uint32(b[0])<<24 | uint32(b[1])<<16 | uint32(b[2])<<8 | uint32(b[3])
}

// VerifH_C01_ipgen: every base address, every prefix length, two consecutive iterator values.
func VerifH_C01_ipgen() {
	c01Reset(2)
	ones8 := ndU8("ones")
	verifAssume(ones8 <= 32)
	ones := int(verifConcretize(uint64(ones8)))
	base := ndBytes("base", 4)
	mask := net.CIDRMask(ones, 32)
	r := &Range{DstSubnet: &net.IPNet{IP: net.IP(base), Mask: mask}}
	ch, err := NewIPGenerator().IPs(context.Background(), r)
	verifAssert(err == nil, "valid IPv4 subnet refused")
	if err != nil {
		return
	}
	verifAssert(len(c01Iters) == 1, "not exactly one iterator per pass over the subnet")
	it := c01Iters[0]
	verifAssert(it.n == int64(1)<<uint(32-ones), "iterator size is not the number of addresses of the subnet")
	m32 := c01U32(mask)
	netw := c01U32(base) & m32
	n := 0
	for g := range ch {
		ip, gerr := g.GetIP()
		verifAssert(gerr == nil, "address generator produced an error element")
		verifAssert(len(ip) == 4, "generated address is not a 4-byte IPv4 address")
		if len(ip) == 4 && n < len(it.raw) {
			got := c01U32(ip)
			want := netw + uint32(it.raw[n]-1)
			verifAssert(got == want, "address is not network + (index-1)")
			verifAssert(got&m32 == netw, "address outside the target subnet")
		}
		n++
	}
	verifAssert(n == len(it.raw), "number of addresses differs from the number of iterator values")
	verifAssert(it.nexts == len(it.raw), "iterator not advanced exactly once per address")
	verifCover("done")
}

// VerifH_C01_portgen: up to K port ranges, two iterator values each.
func VerifH_C01_portgen() {
	c01Reset(2)
	K := verifParam("K", 2)
	var prs []*PortRange
	for i := 0; i < K; i++ {
		s, e := ndU16("start"), ndU16("end")
		verifAssume(s <= e)
		prs = append(prs, &PortRange{StartPort: s, EndPort: e})
	}
	ch, err := NewPortGenerator().Ports(context.Background(), &Range{Ports: prs})
	verifAssert(err == nil, "valid port ranges refused")
	if err != nil {
		return
	}
	var got []uint16
	for g := range ch {
		p, gerr := g.GetPort()
		verifAssert(gerr == nil, "port generator produced an error element for a valid range")
		got = append(got, p)
	}
	verifAssert(len(c01Iters) == K, "not exactly one iterator per port range")
	k := 0
	for i, it := range c01Iters {
		verifAssert(it.n == int64(prs[i].EndPort)-int64(prs[i].StartPort)+1, "iterator size is not the size of the port range")
		for _, raw := range it.raw {
			if k < len(got) {
				want := int64(prs[i].StartPort) + raw - 1
				verifAssert(int64(got[k]) == want, "port is not start + (index-1)")
				verifAssert(got[k] >= prs[i].StartPort && got[k] <= prs[i].EndPort, "port outside its range")
			}
			k++
		}
		verifAssert(it.nexts == len(it.raw), "iterator not advanced exactly once per port")
	}
	verifAssert(k == len(got), "number of ports differs from the iterator values")
	verifCover("done")
}

// VerifH_C01_portgenInvalid: start > end anywhere, or no ranges: refused before anything is produced.
func VerifH_C01_portgenInvalid() {
	c01Reset(1)
	K := verifParam("K", 2)
	var prs []*PortRange
	bad := false
	for i := 0; i < K; i++ {
		s, e := ndU16("start"), ndU16("end")
		if s > e {
			bad = true
		}
		prs = append(prs, &PortRange{StartPort: s, EndPort: e})
	}
	ch, err := NewPortGenerator().Ports(context.Background(), &Range{Ports: prs})
	if bad || K == 0 {
		verifCover("refused")
		verifAssert(err != nil && ch == nil, "reversed or empty port ranges not refused")
		verifAssert(len(c01Iters) == 0, "something was generated for refused port ranges")
	} else {
		verifCover("accepted")
		verifAssert(err == nil, "valid port ranges refused")
	}
}
