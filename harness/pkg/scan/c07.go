package scan

import (
	"syscall"
	"net"
	"context"
	"errors"
	"io"
	"time"

	"github.com/google/gopacket"
	"github.com/v-byte-cpu/sx/pkg/packet"
)

type c07Filler struct {
	fail []bool
}

var errC07Fill = errors.New("cannot build frame")

func (f *c07Filler) Fill(buf gopacket.SerializeBuffer, r *Request) error {
	id := int(r.DstPort)
	verifYield() // building takes time: other stages run meanwhile
	if f.fail[id] {
		return errC07Fill
	}
	b, err := buf.PrependBytes(4)
	if err != nil {
		return err
	}
	b[0], b[1], b[2], b[3] = 0xA0+byte(id), byte(id), byte(id)*3, 0x5A
	return nil
}

type c07RW struct {
	writes   [][]byte
	fail     []bool
	nwrites  int
	inflight int
	doneSeen func() bool
	errKinds bool
}

var errC07Write = errors.New("write failed")

func (w *c07RW) WritePacketData(pkt []byte) error {
	w.inflight++
	verifYield() // a slow wire: the bytes are consumed only now
	cp := append([]byte{}, pkt...)
	w.writes = append(w.writes, cp)
	k := w.nwrites
	w.nwrites++
	w.inflight--
	if w.doneSeen != nil {
		verifAssert(!w.doneSeen(), "completion was signalled before the last frame had been handed to the wire")
	}
	if len(cp) == 4 && int(cp[1]) < len(w.fail) && w.fail[cp[1]] {
		_ = k
		if w.errKinds {
			// a failed write is a failed write whatever the errno: the frame did not leave, one error is due
			switch verifConcretize(uint64(ndU8("writeErrKind") % 4)) {
			case 1:
				return syscall.EAGAIN
			case 2:
				return syscall.ENOBUFS
			case 3:
				return &net.OpError{Op: "write", Err: syscall.ECONNRESET}
			}
		}
		return errC07Write
	}
	return nil
}

func (w *c07RW) ReadPacketData() ([]byte, *gopacket.CaptureInfo, error) { return nil, nil, io.EOF }

type c07Proc struct{}

func (c07Proc) ProcessPacketData([]byte, *gopacket.CaptureInfo) error { return nil }

// VerifH_C07_pipeline: K requests (good / error entry / build failure / write failure),
// N packet-building workers, the real generator, merger, source, sender, receiver and error merger.
func VerifH_C07_pipeline() {
	K, N := verifParam("K", 2), verifParam("N", 2)
	fl := &c07Filler{fail: make([]bool, K)}
	rw := &c07RW{fail: make([]bool, K), errKinds: verifParam("ERRKINDS", 0) == 1}
	var reqs []*Request
	kind := make([]int, K) // 0 good, 1 error entry, 2 build failure, 3 write failure
	for i := 0; i < K; i++ {
		c := ndU8("kind")
		verifAssume(c < 4)
		kind[i] = int(verifConcretize(uint64(c)))
		rq := &Request{DstPort: uint16(i)}
		switch kind[i] {
		case 1:
			rq = &Request{Err: errC08Req, DstPort: uint16(i)}
		case 2:
			fl.fail[i] = true
		case 3:
			rw.fail[i] = true
		}
		reqs = append(reqs, rq)
	}
	ctx, cancel := context.WithCancel(context.Background())
	defer cancel()
	src := NewPacketSource(&c08Gen{reqs: reqs}, NewPacketMultiGenerator(fl, N))
	eng := NewPacketEngine(src, packet.NewSender(rw), packet.NewReceiver(rw, c07Proc{}))
	done, errc := eng.Start(ctx, &Range{})
	doneClosed := false
	rw.doneSeen = func() bool { return doneClosed }
	var errs []error
	errsDone := make(chan struct{})
	go func() {
		defer close(errsDone)
		for e := range errc {
			errs = append(errs, e)
		}
	}()
	<-done
	doneClosed = true
	verifAssert(rw.inflight == 0, "completion was signalled while a frame was still being written")
	<-errsDone
	// frames on the wire = frames built for the requests that are good (or fail only at the write)
	want := 0
	seen := make([]int, K)
	for _, w := range rw.writes {
		verifAssert(len(w) == 4, "a frame of the wrong length reached the wire")
		if len(w) != 4 {
			continue
		}
		id := int(w[1])
		verifAssert(id < K && w[0] == 0xA0+byte(id) && w[2] == byte(id)*3 && w[3] == 0x5A, "a frame on the wire differs from the frame that was built (altered after build?)")
		if id < K {
			seen[id]++
		}
	}
	nReqErr, nFill, nWrite := 0, 0, 0
	for i := 0; i < K; i++ {
		switch kind[i] {
		case 0, 3:
			want++
			verifAssert(seen[i] == 1, "a built frame was lost or written twice")
		default:
			verifAssert(seen[i] == 0, "a frame was written for a failed request")
		}
		switch kind[i] {
		case 1:
			nReqErr++
		case 2:
			nFill++
		case 3:
			nWrite++
		}
	}
	verifAssert(len(rw.writes) == want, "number of frames written differs from the number built")
	a, b, c := 0, 0, 0
	for _, e := range errs {
		switch e {
		case errC08Req:
			a++
		case errC07Fill:
			b++
		case errC07Write:
			c++
		default:
			if _, isOp := e.(*net.OpError); isOp || e == error(syscall.EAGAIN) || e == error(syscall.ENOBUFS) {
				c++ // one of the other write failures
				break
			}
			verifAssert(false, "unknown error on the error stream")
		}
	}
	verifAssert(a == nReqErr && b == nFill && c == nWrite, "errors are not reported exactly once per failed request, build and write")
	verifCover("done")
}

// ---- a slow write overlapping the build of the next frame (deterministic hand-shake) ----

type c07GatedGen struct {
	first, second *Request
	gate          chan struct{}
}

func (g *c07GatedGen) GenerateRequests(ctx context.Context, r *Range) (<-chan *Request, error) {
	out := make(chan *Request)
	go func() {
		defer close(out)
		out <- g.first
		<-g.gate // the second target arrives while the first frame is on its way out
		out <- g.second
	}()
	return out, nil
}

type c07SignalFiller struct {
	c07Filler
	built chan struct{}
}

func (f *c07SignalFiller) Fill(buf gopacket.SerializeBuffer, r *Request) error {
	err := f.c07Filler.Fill(buf, r)
	if r.DstPort == 1 {
		close(f.built)
	}
	return err
}

type c07SlowRW struct {
	c07RW
	gate  chan struct{}
	built chan struct{}
	first bool
}

func (w *c07SlowRW) WritePacketData(pkt []byte) error {
	if !w.first {
		w.first = true
		close(w.gate) // the write of frame 0 has started ...
		<-w.built     // ... and is still in progress while frame 1 is being built
	}
	return w.c07RW.WritePacketData(pkt)
}

// VerifH_C07_slowWrite: the bytes of a frame must stay intact while its write is in progress,
// also when the next frame is built meanwhile (buffer pool reuse).
func VerifH_C07_slowWrite() {
	N := verifParam("N", 1)
	gate, built := make(chan struct{}), make(chan struct{})
	fl := &c07SignalFiller{c07Filler: c07Filler{fail: make([]bool, 2)}, built: built}
	rw := &c07SlowRW{c07RW: c07RW{fail: make([]bool, 2)}, gate: gate, built: built}
	gen := &c07GatedGen{first: &Request{DstPort: 0}, second: &Request{DstPort: 1}, gate: gate}
	ctx, cancel := context.WithCancel(context.Background())
	defer cancel()
	eng := NewPacketEngine(NewPacketSource(gen, NewPacketMultiGenerator(fl, N)), packet.NewSender(rw), packet.NewReceiver(rw, c07Proc{}))
	done, errc := eng.Start(ctx, &Range{})
	go func() {
		for range errc {
		}
	}()
	<-done
	verifAssert(len(rw.writes) == 2, "two frames were built, but not two were written")
	for _, w := range rw.writes {
		ok := len(w) == 4 && int(w[1]) < 2 && w[0] == 0xA0+w[1] && w[2] == w[1]*3 && w[3] == 0x5A
		verifAssert(ok, "a frame on the wire differs from the frame that was built (buffer recycled before the write returned?)")
	}
	if len(rw.writes) == 2 {
		verifAssert(rw.writes[0][1] != rw.writes[1][1], "the same frame was written twice")
	}
	verifCover("done")
}

// VerifH_C07_errBurst: more failed requests and writes than the 100-slot error buffers hold while
// the consumer is busy: every failure still yields exactly one error, nothing is dropped.
func VerifH_C07_errBurst() {
	K := verifParam("K", 150)
	in := make(chan *packet.BufferData, K)
	rw := &c07RW{}
	nWriteFail := 0
	for i := 0; i < K; i++ {
		if i%2 == 0 {
			in <- &packet.BufferData{Err: errC08Req}
			continue
		}
		buf := packet.NewSerializeBuffer()
		b, _ := buf.PrependBytes(4)
		b[0], b[1], b[2], b[3] = 0xA0, 1, 3, 0x5A
		in <- &packet.BufferData{Buf: buf}
		nWriteFail++
	}
	close(in)
	rw.fail = []bool{false, true} // every frame carries id 1: its write fails
	ctx, cancel := context.WithCancel(context.Background())
	defer cancel()
	done, errc := packet.NewSender(rw).SendPackets(ctx, in)
	time.Sleep(time.Millisecond) // the consumer is late: the sender has filled the buffer and waits
	n := 0
	for range errc {
		n++
	}
	<-done
	verifAssert(n == K, "failures were not reported exactly once each when more than 100 errors were pending")
	verifAssert(len(rw.writes) == nWriteFail, "not every frame was handed to the wire")
	verifCover("done")
}

type c07StallFiller struct {
	gate    chan struct{}
	stalled bool
	built   int
}

// the first Fill call stalls until the gate opens (one worker stuck in a slow build); every frame is
// tagged with its request's port
func (f *c07StallFiller) Fill(buf gopacket.SerializeBuffer, r *Request) error {
	if !f.stalled {
		f.stalled = true
		<-f.gate
	}
	b, err := buf.PrependBytes(4)
	if err != nil {
		return err
	}
	b[0], b[1], b[2], b[3] = 0xB0, byte(r.DstPort>>8), byte(r.DstPort), 0x5A
	f.built++
	return nil
}

type c07GateRW struct {
	gate   chan struct{}
	writes []uint16
	bad    int
}

func (w *c07GateRW) WritePacketData(pkt []byte) error {
	<-w.gate // the wire is stalled until the gate opens
	if len(pkt) != 4 || pkt[0] != 0xB0 || pkt[3] != 0x5A {
		w.bad++
		return nil
	}
	w.writes = append(w.writes, uint16(pkt[1])<<8|uint16(pkt[2]))
	return nil
}
func (w *c07GateRW) ReadPacketData() ([]byte, *gopacket.CaptureInfo, error) { return nil, nil, io.EOF }

// VerifH_C07_stalledWire: the wire is stalled while the generator stage runs far ahead (K frames, more than
// every queue between generator and sender holds for ONE worker: 100 + workers*100), one of the N workers
// stuck in a slow build meanwhile; then the wire opens: every frame built is written exactly once,
// unaltered.  Concrete execution under the canonical schedule (regression guard, R8C07-a).
func VerifH_C07_stalledWire() {
	K := verifParam("K", 320)
	N := verifParam("N", 2)
	reqs := make(chan *Request, K)
	for i := 1; i <= K; i++ {
		reqs <- &Request{DstPort: uint16(i)}
	}
	close(reqs)
	filler := &c07StallFiller{gate: make(chan struct{})}
	rw := &c07GateRW{gate: make(chan struct{})}
	ctx, cancel := context.WithCancel(context.Background())
	defer cancel()
	pkts := NewPacketMultiGenerator(filler, N).Packets(ctx, reqs)
	done, errc := packet.NewSender(rw).SendPackets(ctx, pkts)
	time.Sleep(time.Millisecond) // everything that can run ahead has run ahead
	close(rw.gate)
	time.Sleep(time.Millisecond)
	close(filler.gate)
	nerr := 0
	for range errc {
		nerr++
	}
	<-done
	verifAssert(nerr == 0, "errors reported although nothing failed")
	verifAssert(rw.bad == 0, "a frame on the wire is not one that was built (altered or empty)")
	verifAssert(len(rw.writes) == K, "frames written differ in number from frames built (lost or duplicated)")
	seen := make([]bool, K+1)
	for _, id := range rw.writes {
		if int(id) >= 1 && int(id) <= K {
			verifAssert(!seen[id], "a frame was written twice")
			seen[id] = true
		} else {
			verifAssert(false, "a frame on the wire is not one that was built")
		}
	}
	verifCover("done")
}
