package scan

import (
	"bufio"
	"context"
	"errors"
	"io"
	"net"
	"strings"
)

// line classes of a target file
const (
	c13OK = iota
	c13BadJSON
	c13NoIP
	c13BadIP
	c13NoPort
	c13Port0
	c13PortBig
	c13PortNeg
	c13WrongType
	c13Blank
	c13OKv6Spelled // a valid IPv4 target written as ::ffff:a.b.c.d
	c13PortMax     // the highest valid port
	c13LongLine    // a line beyond bufio.Scanner's 64 KiB limit: one error stating that, nothing after it
	c13SubnetIP    // the address field holds a subnet, not an address: not a target
	c13NumClasses
)

var c13Text = [c13NumClasses]string{
	c13OK:          `{"ip":"10.0.0.%","port":8%}`,
	c13BadJSON:     `{"ip":"10.9.9.%","port":`,
	c13NoIP:        `{"port":9%}`,
	c13BadIP:       `{"ip":"10.0.0.30%","port":7%}`,
	c13NoPort:      `{"ip":"10.1.1.%"}`,
	c13Port0:       `{"ip":"10.2.2.%","port":0}`,
	c13PortBig:     `{"ip":"10.3.3.%","port":65536}`,
	c13PortNeg:     `{"ip":"10.4.4.%","port":-1}`,
	c13WrongType:   `{"ip":5,"port":6%}`,
	c13Blank:       ``,
	c13OKv6Spelled: `{"ip":"::ffff:10.5.5.%","port":5%}`,
	c13PortMax:     `{"ip":"10.6.6.%","port":65535}`,
	c13LongLine:    `{"ip":"10.7.7.%","port":80,"comment":"LONG"}`,
	c13SubnetIP:    `{"ip":"10.8.8.0/2%","port":44%}`,
}

// c13Cause is the error a line of class c must be reported with (nil: the line is a target).
func c13Cause(c int) error {
	switch c {
	case c13OK, c13OKv6Spelled, c13PortMax:
		return nil
	case c13LongLine:
		return bufio.ErrTooLong
	case c13BadJSON, c13WrongType, c13Blank:
		return ErrJSON
	case c13NoIP, c13BadIP, c13SubnetIP:
		return ErrIP
	}
	return ErrPort
}

func c13Line(c, i int) string {
	t := strings.ReplaceAll(c13Text[c], "%", string(rune('1'+i)))
	if c == c13LongLine {
		t = strings.Replace(t, "LONG", strings.Repeat("x", 66000), 1)
	}
	return t
}

func c13WantIP(c, i int) net.IP {
	switch c {
	case c13OK:
		return net.IPv4(10, 0, 0, byte(1+i))
	case c13OKv6Spelled:
		return net.IPv4(10, 5, 5, byte(1+i))
	case c13PortMax:
		return net.IPv4(10, 6, 6, byte(1+i))
	}
	return nil
}

func c13WantPort(c, i int) uint16 {
	if c == c13OK {
		return uint16(81 + i)
	}
	if c == c13PortMax {
		return 65535
	}
	return uint16(51 + i)
}

// c13Classes picks the class of each of k lines (solver variables, enumerated).
func c13Classes(k int, n uint8) []int {
	cls := make([]int, k)
	for i := range cls {
		c := ndU8("class")
		verifAssume(c < n)
		cls[i] = int(verifConcretize(uint64(c)))
	}
	return cls
}

func c13File(cls []int) OpenFileFunc {
	var sb strings.Builder
	for i, c := range cls {
		sb.WriteString(c13Line(c, i))
		sb.WriteString("\n")
	}
	text := sb.String()
	return func() (io.ReadCloser, error) { return io.NopCloser(strings.NewReader(text)), nil }
}

type c13Container struct {
	answers map[string]int // ip -> 0 no, 1 yes, 2 error
	err     error
	asked   []string
}

func (c *c13Container) Contains(ip net.IP) (bool, error) {
	c.asked = append(c.asked, ip.String())
	switch c.answers[ip.String()] {
	case 1:
		return true, nil
	case 2:
		return false, c.err
	}
	return false, nil
}

// c13CheckStream compares the request stream with the file, line by line.
// excluded[i]: line i is a valid target covered by the exclusion list.
func c13States(err, cause error) bool {
	return errors.Is(err, cause) || strings.Contains(err.Error(), cause.Error())
}

func c13CheckStream(out []*Request, cls []int, excluded []bool, src net.IP) {
	k := 0
	stopped := false
	for i, c := range cls {
		cause := c13Cause(c)
		if cause == nil && excluded != nil && excluded[i] {
			continue // an excluded target: no output at all
		}
		if k >= len(out) {
			// the stream may only end early right after a bad line
			verifAssert(stopped, "entries lost: the stream ended although no bad line allows it to stop")
			break
		}
		rq := out[k]
		k++
		if cause == nil {
			stopped = false
			verifAssert(rq.Err == nil, "a valid entry was turned into an error")
			verifAssert(rq.DstIP.Equal(c13WantIP(c, i)), "probe address is not the address of its own line")
			verifAssert(rq.DstPort == c13WantPort(c, i), "probe port is not the port of its own line")
			verifAssert(rq.SrcIP.Equal(src), "source address not taken from the scan range")
			continue
		}
		verifAssert(rq.Err != nil, "a bad entry produced a probe instead of an error")
		if rq.Err != nil {
			verifAssert(c13States(rq.Err, cause), "error record does not state the cause of its line")
		}
		stopped = true
	}
	if k < len(out) {
		verifAssert(false, "more requests than file entries (an entry was duplicated or invented)")
	}
}

func c13Collect(ch <-chan *Request) []*Request {
	var out []*Request
	for r := range ch {
		out = append(out, r)
	}
	return out
}

// VerifH_C13_filePairs: ip/port-pair file of K lines, every combination of line classes,
// with and without the exclusion filter stacked on top.
func VerifH_C13_filePairs() {
	K := verifParam("K", 2)
	cls := c13Classes(K, c13NumClasses)
	src := net.IPv4(192, 168, 0, 3).To4()
	var gen RequestGenerator = NewFileIPPortGenerator(c13File(cls))
	var excluded []bool
	if verifParam("FILTER", 0) == 1 {
		cont := &c13Container{answers: map[string]int{}}
		excluded = make([]bool, K)
		for i, c := range cls {
			if ip := c13WantIP(c, i); ip != nil && ndBool("excluded") {
				cont.answers[ip.String()] = 1
				excluded[i] = true
			}
		}
		gen = NewFilterIPRequestGenerator(gen, cont)
		verifCover("filter")
	}
	ch, err := gen.GenerateRequests(context.Background(), &Range{SrcIP: src})
	verifAssert(err == nil, "generator refused a readable file")
	if err != nil {
		return
	}
	out := c13Collect(ch)
	c13CheckStream(out, cls, excluded, src)
	verifCover("done")
}

// VerifH_C13_fileIPs: address file (used with port ranges): classes ok / bad JSON / no ip / bad ip.
func VerifH_C13_fileIPs() {
	K := verifParam("K", 2)
	cls := c13Classes(K, 4)
	g := NewFileIPGenerator(c13File(cls))
	ch, err := g.IPs(context.Background(), nil)
	verifAssert(err == nil, "generator refused a readable file")
	if err != nil {
		return
	}
	var got []IPGetter
	for x := range ch {
		got = append(got, x)
	}
	k := 0
	stopped := false
	for i, c := range cls {
		if k >= len(got) {
			verifAssert(stopped, "entries lost: the stream ended although no bad line allows it to stop")
			break
		}
		ip, gerr := got[k].GetIP()
		k++
		if cause := c13Cause(c); cause != nil {
			verifAssert(gerr != nil, "a line without a usable address produced a target")
			if gerr != nil {
				verifAssert(c13States(gerr, cause), "error record does not state the cause of its line")
			}
			stopped = true
			continue
		}
		stopped = false
		verifAssert(gerr == nil, "a valid address line was turned into an error")
		verifAssert(ip.Equal(c13WantIP(c, i)), "target is not the address of its own line")
	}
	verifAssert(k >= len(got), "more targets than file lines (a line was duplicated or invented)")
	verifCover("done")
}

// VerifH_C13_filterKeepsErrors: the exclusion filter stacked on a stream that already carries
// error requests: the container may answer anything for them, also an error.
func VerifH_C13_filterKeepsErrors() {
	K := verifParam("K", 2)
	cls := c13Classes(K, c13NumClasses)
	cont := &c13Container{answers: map[string]int{}, err: errors.New("container: bad address")}
	// what the container says about a request that has no address
	nilAns := ndU8("nilAnswer")
	verifAssume(nilAns < 3)
	cont.answers[net.IP(nil).String()] = int(verifConcretize(uint64(nilAns)))
	gen := NewFilterIPRequestGenerator(NewFileIPPortGenerator(c13File(cls)), cont)
	ch, err := gen.GenerateRequests(context.Background(), &Range{})
	verifAssert(err == nil, "generator refused a readable file")
	if err != nil {
		return
	}
	out := c13Collect(ch)
	c13CheckStream(out, cls, make([]bool, K), nil)
	verifCover("done")
}
