package scan

import (
	"context"
	"errors"
	"net"
	"time"
)

type c19Delegate struct {
	perPass   []int // requests of pass p
	failPass  int   // 1-based number of the GenerateRequests call that fails (0: none)
	sendDelay time.Duration
	calls     int
	startAt   []int64
	endAt     []int64
	nextID    int
	maxCalls  int
	errItems  bool
}

var errC19Item = errors.New("bad target entry")

var errC19 = errors.New("pass cannot start")

func (d *c19Delegate) GenerateRequests(ctx context.Context, r *Range) (<-chan *Request, error) {
	d.calls++
	verifAssert(d.calls <= d.maxCalls, "live mode restarts the pass in a busy loop (no waiting between attempts)")
	if d.calls > d.maxCalls {
		panic("busy loop")
	}
	call := d.calls
	if call == d.failPass {
		return nil, errC19
	}
	n := 0
	if call-1 < len(d.perPass) {
		n = d.perPass[call-1]
	}
	d.startAt = append(d.startAt, verifNow())
	out := make(chan *Request, 2)
	go func() {
		for i := 0; i < n; i++ {
			if d.sendDelay > 0 {
				time.Sleep(d.sendDelay)
			}
			rq := &Request{DstPort: uint16(d.nextID)}
			if d.errItems && ndBool("errorRequest") {
				rq.Err = errC19Item // a bad entry of the target list: forwarded like any other item of the pass
			}
			select {
			case out <- rq:
				d.nextID++
			case <-ctx.Done():
				close(out)
				return
			}
		}
		d.endAt = append(d.endAt, verifNow())
		close(out)
	}()
	return out, nil
}

// VerifH_C19_live: passes of 0..2 requests, a pass that takes time, a restart that fails,
// cancellation at any of the listed instants, fast or slow consumer.
func VerifH_C19_live() {
	const I = 100 * time.Millisecond
	verifNow()
	d := &c19Delegate{maxCalls: 12, errItems: verifParam("ERRITEMS", 0) == 1}
	for p := 0; p < 3; p++ {
		k := ndU8("passLen")
		verifAssume(k <= 2)
		d.perPass = append(d.perPass, int(verifConcretize(uint64(k))))
	}
	fp := ndU8("failPass")
	verifAssume(fp == 0 || fp == 2 || fp == 3)
	d.failPass = int(verifConcretize(uint64(fp)))
	d.sendDelay = c19Pick("sendDelay", 0, 30*time.Millisecond, 80*time.Millisecond)
	cancelAt := c19Pick("cancelAt", 0, 50*time.Millisecond, 150*time.Millisecond, 260*time.Millisecond, 450*time.Millisecond, 900*time.Millisecond)
	consumer := c19Pick("consumer", 0, 20*time.Millisecond)
	ctx, cancel := context.WithCancel(context.Background())
	byDeadline := cancelAt > 0 && ndBool("endsByDeadline")
	if byDeadline {
		// the scan context ends because its deadline expires (a caller's WithTimeout), not by cancel()
		cancel()
		ctx, cancel = context.WithTimeout(context.Background(), cancelAt)
		verifCover("deadline")
	}
	ch, err := NewLiveRequestGenerator(d, I).GenerateRequests(ctx, &Range{})
	verifAssert(err == nil, "live generator refused a working delegate")
	if err != nil {
		cancel()
		return
	}
	if !byDeadline {
		go func() {
			if cancelAt > 0 {
				time.Sleep(cancelAt)
			}
			cancel()
		}()
	} else {
		defer cancel()
	}
	var got []int
	var gotAt []int64
	for r := range ch {
		got = append(got, int(r.DstPort))
		gotAt = append(gotAt, verifNow())
		if consumer > 0 {
			time.Sleep(consumer)
		}
	}
	end := verifNow()
	verifCover("stream-ended")
	// (what is already buffered may still be consumed: at most 4 items at the consumer's pace)
	verifAssert(end <= int64(cancelAt)+4*int64(consumer)+int64(time.Millisecond), "the stream did not end promptly after cancellation")
	// the output is the concatenation of the passes, in order, nothing lost inside a completed pass
	for i, id := range got {
		if gotAt[i] < int64(cancelAt) {
			verifAssert(id == i, "requests lost, duplicated or reordered across passes")
		} else if i > 0 {
			// once the scan is cancelled a request in flight may be dropped; never duplicated or reordered
			verifAssert(id > got[i-1], "requests duplicated or reordered")
		}
	}
	// every pass that completed was delivered completely
	delivered := 0
	for p := 0; p < len(d.endAt) && p < len(d.perPass); p++ {
		delivered += d.perPass[p]
	}
	if cancelAt > 0 && len(d.endAt) > 0 && int64(cancelAt) > d.endAt[len(d.endAt)-1]+int64(consumer)*3 {
		verifAssert(len(got) >= delivered, "a completed pass was not delivered completely")
	}
	// the next pass starts no earlier than the rescan interval after the previous one ended
	for p := 1; p < len(d.startAt); p++ {
		if p-1 < len(d.endAt) {
			verifCover("second-pass")
			verifAssert(d.startAt[p] >= d.endAt[p-1]+int64(I), "a pass started earlier than the rescan interval after the previous pass ended")
		}
	}
	verifAssert(int64(d.calls-1)*int64(I) <= end+int64(I), "more passes were started than the elapsed time allows")
}

func c19Pick(label string, vals ...time.Duration) time.Duration {
	k := ndU8(label)
	verifAssume(int(k) < len(vals))
	return vals[verifConcretize(uint64(k))]
}

// VerifH_C19_liveSlowConsumer: the generator stack of the arp command (live wrapper over the real address
// request generator and the real permutation iterator) over a /29 with a consumer that takes one request
// every STEP (a rate-limited sender): every pass is complete, and the first request of the next pass is
// handed over no earlier than the rescan interval after the LAST request of the previous pass was taken
// (not after it was merely buffered).  Logical clock.
func VerifH_C19_liveSlowConsumer() {
	interval := 400 * time.Millisecond
	step := []time.Duration{100 * time.Millisecond, 30 * time.Millisecond, 450 * time.Millisecond}[int(verifConcretize(uint64(ndU8("step")%3)))]
	verifNow()
	ctx, cancel := context.WithCancel(context.Background())
	defer cancel()
	gen := NewLiveRequestGenerator(NewIPRequestGenerator(NewIPGenerator()), interval)
	r := &Range{DstSubnet: &net.IPNet{IP: net.IPv4(10, 9, 8, 0).To4(), Mask: net.CIDRMask(29, 32)}}
	ch, err := gen.GenerateRequests(ctx, r)
	verifAssert(err == nil, "live generator refused a valid target")
	if err != nil {
		return
	}
	slack := time.Duration(0)
	if !verifSymbolic() {
		slack = 50 * time.Millisecond
	}
	var lastTaken time.Duration
	for pass := 0; pass < 3; pass++ {
		seen := [8]bool{}
		for k := 0; k < 8; k++ {
			req, ok := <-ch
			at := time.Duration(verifNow())
			verifAssert(ok && req != nil && req.Err == nil && len(req.DstIP) >= 4, "live stream ended or delivered an error request")
			if !ok || req == nil || len(req.DstIP) < 4 {
				return
			}
			ip := req.DstIP.To4()
			verifAssert(ip != nil && ip[0] == 10 && ip[1] == 9 && ip[2] == 8 && ip[3] < 8 && !seen[ip[3]&7], "a pass is not a permutation of the target subnet")
			if ip != nil {
				seen[ip[3]&7] = true
			}
			if pass > 0 && k == 0 {
				verifAssert(at-lastTaken >= interval-slack, "the next pass started earlier than the rescan interval after the previous pass ended")
			}
			lastTaken = at
			time.Sleep(step)
		}
	}
	cancel()
	verifCover("done")
}
