package scan

func VerifH_smoke() {
	p := ndInt("p")
	r := isValidPort(p)
	verifAssert(r == (p >= 1 && p <= 65535), "isValidPort range")
	verifCover("done")
}

func VerifH_smoke_bad() {
	p := ndInt("p")
	r := isValidPort(p)
	verifAssert(r == (p >= 1 && p < 65535), "isValidPort range (deliberately wrong)")
}
