package arp

import "strings"

// VerifH_C14_arpJSON: the generated encoder with one string field an arbitrary ASCII string of L bytes.
func VerifH_C14_arpJSON() {
	L := verifParam("L", 1)
	r := &ScanResult{IP: "10.0.0.1", MAC: "00:11:22:33:44:55", Vendor: "Acme \"Net\" Inc"}
	if pad := verifParam("PAD", 0); pad > 0 {
		// a long vendor name (the OUI table has names of 70+ characters): the encoding exceeds
		// the first buffer chunk of the JSON writer
		r.Vendor = strings.Repeat("Long Name & Co ", pad) + "\"Ltd\""
	}
	sym := c14ASCII("s", L)
	switch verifParam("FIELD", 0) {
	case 0:
		r.IP = string(sym)
	case 1:
		r.MAC = string(sym)
	case 2:
		r.Vendor = string(sym)
	}
	out, err := r.MarshalJSON()
	verifAssert(err == nil, "encoder failed")
	for _, c := range out {
		verifAssert(c != '\n' && c != '\r', "raw line break inside a record")
	}
	kvs, ok := c14Object(out)
	verifAssert(ok, "output is not one complete JSON object (bad escaping?)")
	if !ok {
		return
	}
	want := []string{"ip", "mac", "vendor"}
	vals := []string{r.IP, r.MAC, r.Vendor}
	verifAssert(len(kvs) == 3, "object does not have exactly the documented keys")
	for i, kv := range kvs {
		if i < 3 {
			verifAssert(kv.key == want[i] && kv.isStr && c14SameBytes(kv.str, c14Expect([]byte(vals[i]))), "a value does not decode back to the result's field")
		}
	}
	verifCover("done")
}
