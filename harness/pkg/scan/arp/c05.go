package arp

import (
	"net"

	"github.com/google/gopacket"
	"github.com/v-byte-cpu/sx/pkg/scan"
)

// VerifH_C05_arp: every source MAC/IP and target IP (4- or 16-byte spelling).
func VerifH_C05_arp() {
	src, dst4 := ndBytes("src", 4), ndBytes("dst", 4)
	dst := net.IP(dst4)
	if verifParam("DST16", 0) == 1 {
		dst = net.IPv4(dst4[0], dst4[1], dst4[2], dst4[3])
	}
	smac := ndBytes("smac", 6)
	buf := gopacket.NewSerializeBuffer()
	err := NewPacketFiller().Fill(buf, &scan.Request{SrcIP: net.IP(src), DstIP: dst, SrcMAC: smac})
	verifAssert(err == nil, "Fill failed for a well-formed request")
	if err != nil {
		return
	}
	b := buf.Bytes()
	verifAssert(len(b) == 60, "ARP request frame is not 42 bytes zero-padded to 60")
	if len(b) != 60 {
		return
	}
	verifAssert(c05Eq(b[0:6], []byte{0xff, 0xff, 0xff, 0xff, 0xff, 0xff}), "ARP request not sent to the broadcast MAC")
	verifAssert(c05Eq(b[6:12], smac), "Ethernet source is not the requested MAC")
	verifAssert(c05Eq(b[12:22], []byte{0x08, 0x06, 0, 1, 0x08, 0, 6, 4, 0, 1}), "not an Ethernet/IPv4 ARP request header")
	verifAssert(c05Eq(b[22:28], smac), "sender hardware address is not the source MAC")
	verifAssert(c05Eq(b[28:32], src), "sender protocol address is not the source IP")
	verifAssert(c05AllZero(b[32:38]), "target hardware address not zero")
	verifAssert(c05Eq(b[38:42], dst4), "target protocol address is not the requested address")
	verifAssert(c05AllZero(b[42:]), "padding not zero")
	verifCover("done")
}
