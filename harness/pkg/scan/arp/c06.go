package arp

import (
	"net"

	"github.com/google/gopacket/macs"
	"github.com/v-byte-cpu/sx/pkg/scan"
)

type c06Results struct {
	got []scan.Result
	ch  chan scan.Result
}

func (r *c06Results) Put(x scan.Result)        { r.got = append(r.got, x) }
func (r *c06Results) Chan() <-chan scan.Result { return r.ch }

// afFrame returns a frame the way afpacket hands it over: len == cap.
func afFrame(label string, n int) []byte {
	b := ndBytes(label, n)
	return b[:n:n]
}

var c06ValidARP = []byte{
	0x10, 0x11, 0x12, 0x13, 0x14, 0x15, 0x00, 0x0c, 0x29, 0x04, 0x05, 0x06, 0x08, 0x06,
	0x00, 0x01, 0x08, 0x00, 0x06, 0x04, 0x00, 0x02,
	0x00, 0x0c, 0x29, 0x04, 0x05, 0x06, 192, 168, 0, 2,
	0x10, 0x11, 0x12, 0x13, 0x14, 0x15, 192, 168, 0, 3,
}

// VerifH_C06_arp: a valid reply, then an arbitrary frame of LEN bytes (cap == len).
func VerifH_C06_arp() {
	n := verifParam("LEN", 14)
	res := &c06Results{}
	sm := NewScanMethod(nil, res)
	a := append([]byte{}, c06ValidARP...)
	err := sm.ProcessPacketData(a[:len(a):len(a)], nil)
	verifAssert(err == nil && len(res.got) == 1, "valid ARP reply not reported exactly once")
	if len(res.got) == 1 {
		r := res.got[0].(*ScanResult)
		verifAssert(r.IP == "192.168.0.2" && r.MAC == "00:0c:29:04:05:06", "valid ARP reply reported with other fields")
	}
	first := res.got
	res.got = nil
	b := afFrame("B", n)
	_ = sm.ProcessPacketData(b, nil)
	if len(first) == 1 {
		r := first[0].(*ScanResult)
		verifAssert(r.IP == "192.168.0.2" && r.MAC == "00:0c:29:04:05:06", "an already emitted record changed when a later frame was processed (shared storage)")
	}
	verifAssert(len(res.got) <= 1, "more than one record for one frame")
	if len(res.got) == 0 {
		verifCover("no-record")
		return
	}
	verifCover("record")
	r := res.got[0].(*ScanResult)
	wf := n >= 42 && b[12] == 0x08 && b[13] == 0x06 && b[15] == 1 && b[16] == 0x08 && b[17] == 0 && b[18] == 6 && b[19] == 4
	verifAssert(wf, "record for a frame that is not Ethernet/IPv4 ARP with 6-byte hardware and 4-byte protocol addresses")
	if wf {
		verifAssert(r.IP == net.IP(b[28:32]).String(), "record address is not the sender address of this frame")
		verifAssert(r.MAC == net.HardwareAddr(b[22:28]).String(), "record MAC is not the sender MAC of this frame")
		verifAssert(r.Vendor == macs.ValidMACPrefixMap[[3]byte{b[22], b[23], b[24]}], "record vendor is not the vendor of this frame's sender MAC")
	}
}
