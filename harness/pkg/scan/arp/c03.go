package arp

import (
	"net"

	"github.com/v-byte-cpu/sx/pkg/scan"
)

// VerifH_C03_arp: filter text from the real BPFFilter compiled by libpcap, composed with the
// real processor; every Ethernet frame of LEN bytes that carries a well-formed Ethernet/IPv4 ARP
// packet or another EtherType.
func VerifH_C03_arp() {
	n := verifParam("LEN", 42)
	r := &scan.Range{}
	withNet := verifParam("TGT", 1) == 1
	if withNet {
		r.DstSubnet = c03Subnets[verifParam("SUBNET", 0)]()
	}
	text, snap := BPFFilter(r)
	prog, err := c03Compile(false, snap, text)
	verifAssert(err == nil, "libpcap rejects the filter expression")
	if err != nil {
		return
	}
	res := &c06Results{}
	sm := NewScanMethod(nil, res)
	b := ndBytes("F", n)
	b = b[:n:n]
	verifAssume(n >= 14)
	isARP := b[12] == 0x08 && b[13] == 0x06
	if isARP {
		// well formed: Ethernet hardware, IPv4 protocol, sizes 6/4, complete
		verifAssume(n >= 42 && b[14] == 0 && b[15] == 1 && b[16] == 0x08 && b[17] == 0 && b[18] == 6 && b[19] == 4)
		verifCover("arp-frame")
	} else {
		verifAssume(!(b[12] == 0x65 && b[13] == 0x58)) // Ethernet-in-Ethernet is not a single well-formed chain
		verifCover("other-ethertype")
	}
	captured, passB := c03Capture(prog, b) // the kernel cuts accepted frames to the filter's snap length
	passR := false
	if passB {
		perr := sm.ProcessPacketData(captured, nil)
		passR = perr == nil && len(res.got) == 1
	} else {
		// what the processor would do is still examined: the filter is an optimisation, not the oracle
		perr := sm.ProcessPacketData(b, nil)
		passR = perr == nil && len(res.got) == 1
	}
	verifAssert(len(res.got) <= 1, "more than one record for one frame")
	shape := false
	if isARP {
		spa := b[28:32]
		shape = !withNet || c03InNet(spa, r.DstSubnet)
		if passR {
			rec := res.got[0].(*ScanResult)
			verifAssert(rec.IP == net.IP(spa).String(), "record address is not the frame's sender address")
			verifAssert(rec.MAC == net.HardwareAddr(b[22:28]).String(), "record MAC is not the frame's sender MAC")
		}
	}
	if shape {
		verifCover("reply-shaped")
		verifAssert(passB, "a reply-shaped frame is dropped by the kernel filter")
		verifAssert(passR, "a reply-shaped frame is not reported by the processor")
	} else {
		verifAssert(!(passB && passR), "a frame that is not reply-shaped passes the filter and is reported")
	}
	if passR && isARP {
		// a later reply must not change the record already emitted
		rec := res.got[0].(*ScanResult)
		ip0, mac0 := rec.IP, rec.MAC
		f2 := append([]byte{}, c06ValidARP...)
		f2[27], f2[31] = 0x77, 9
		_ = sm.ProcessPacketData(f2[:len(f2):len(f2)], nil)
		verifAssert(rec.IP == ip0 && rec.MAC == mac0, "an already emitted record changed when a later frame was processed (shared storage)")
	}
}
