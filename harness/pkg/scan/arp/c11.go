package arp

import (
	"context"
	"errors"
	"io"
	"net"
	"strings"

	"github.com/v-byte-cpu/sx/pkg/scan"
)

type c11Gen struct {
	reqs []*scan.Request
}

func (g *c11Gen) GenerateRequests(ctx context.Context, r *scan.Range) (<-chan *scan.Request, error) {
	out := make(chan *scan.Request, len(g.reqs))
	for _, rq := range g.reqs {
		out <- rq
	}
	close(out)
	return out, nil
}

func c11Spell(label string, ip4 []byte) net.IP {
	if ndBool(label) {
		return net.IPv4(ip4[0], ip4[1], ip4[2], ip4[3]) // 16-byte spelling
	}
	return net.IP(ip4)
}

func c11Same(a, b []byte) bool {
	if len(a) != len(b) {
		return false
	}
	ok := true
	for i := range a {
		ok = verifAnd(ok, a[i] == b[i])
	}
	return ok
}

var errC11Upstream = errors.New("upstream: bad target entry")

// VerifH_C11_destMAC: cache {A->m1, B->m2}, requests to arbitrary addresses (4- or 16-byte
// spelling), gateway MAC present or absent, one request already carrying an error.
func VerifH_C11_destMAC() {
	a, b := ndBytes("A", 4), ndBytes("B", 4)
	m1, m2 := ndBytes("m1", 6), ndBytes("m2", 6)
	verifAssume(!c11Same(a, b))
	cache := NewCache()
	cache.Put(c11Spell("A16", a), m1)
	cache.Put(c11Spell("B16", b), m2)
	var gw net.HardwareAddr
	hasGW := ndBool("hasGateway")
	gwb := ndBytes("gw", 6)
	if hasGW {
		gw = gwb
	}
	K := verifParam("K", 2)
	var reqs []*scan.Request
	var dsts [][]byte
	bad := make([]bool, K)
	for i := 0; i < K; i++ {
		c := ndBytes("C", 4)
		dsts = append(dsts, c)
		rq := &scan.Request{DstIP: c11Spell("C16", c), DstPort: uint16(1000 + i)}
		if ndBool("upstreamError") {
			bad[i] = true
			rq = &scan.Request{Err: errC11Upstream}
		}
		reqs = append(reqs, rq)
	}
	ch, err := NewCacheRequestGenerator(&c11Gen{reqs}, gw, cache).GenerateRequests(context.Background(), &scan.Range{})
	verifAssert(err == nil, "cache stage refused a working source")
	if err != nil {
		return
	}
	n := 0
	for rq := range ch {
		if n >= K {
			verifAssert(false, "cache stage invented a request")
			break
		}
		i := n
		n++
		if bad[i] {
			verifCover("upstream-error")
			verifAssert(rq.Err != nil, "an entry that already was an error became a probe")
			if rq.Err != nil {
				verifAssert(errors.Is(rq.Err, errC11Upstream) || strings.Contains(rq.Err.Error(), errC11Upstream.Error()), "the ARP-cache stage replaced the entry's own error")
			}
			continue
		}
		verifAssert(rq.DstPort == uint16(1000+i), "requests reordered or altered")
		isA, isB := c11Same(dsts[i], a), c11Same(dsts[i], b)
		switch {
		case isA:
			verifCover("own-entry")
			verifAssert(rq.Err == nil && c11Same(rq.DstMAC, m1), "destination MAC is not the cache entry of the probe's own address")
		case isB:
			verifAssert(rq.Err == nil && c11Same(rq.DstMAC, m2), "destination MAC is not the cache entry of the probe's own address")
		case hasGW:
			verifCover("gateway")
			verifAssert(rq.Err == nil && c11Same(rq.DstMAC, gwb), "no cache entry: destination MAC is not the gateway MAC (another host's MAC?)")
		default:
			verifCover("no-mac")
			verifAssert(rq.Err != nil, "no MAC known for the destination, yet a probe was produced")
		}
	}
	verifAssert(n == K, "cache stage lost a request")
}

// ---- C13: bad target-file lines through the ARP-cache stage ----

var c13aLines = [5]string{
	`{"ip":"10.0.0.%","port":8%}`,   // ok
	`{"ip":"10.0.0.30%","port":7%}`, // bad address
	`{"ip":"10.2.2.%","port":0}`,    // bad port
	`{"port":9%}`,                   // no address
	`{"ip":"10.9.9.%","port":`,      // bad JSON
}

func c13aCause(c int) error {
	switch c {
	case 1, 3:
		return scan.ErrIP
	case 2:
		return scan.ErrPort
	case 4:
		return scan.ErrJSON
	}
	return nil
}

// VerifH_C13_cacheStage: K-line target file -> file generator -> ARP-cache stage, gateway
// present or absent, cache entry for the valid lines present or absent.
func VerifH_C13_cacheStage() {
	K := verifParam("K", 2)
	cls := make([]int, K)
	var sb strings.Builder
	for i := range cls {
		c := ndU8("class")
		verifAssume(c < 5)
		cls[i] = int(verifConcretize(uint64(c)))
		sb.WriteString(strings.ReplaceAll(c13aLines[cls[i]], "%", string(rune('1'+i))))
		sb.WriteString("\n")
	}
	text := sb.String()
	gen := scan.NewFileIPPortGenerator(func() (io.ReadCloser, error) { return io.NopCloser(strings.NewReader(text)), nil })
	cache := NewCache()
	inCache := ndBool("entryInCache")
	emac := net.HardwareAddr{0, 1, 2, 3, 4, 5}
	gmac := net.HardwareAddr{9, 9, 9, 9, 9, 9}
	if inCache {
		for i := range cls {
			cache.Put(net.IPv4(10, 0, 0, byte(1+i)), emac)
		}
	}
	var gw net.HardwareAddr
	hasGW := ndBool("hasGateway")
	if hasGW {
		gw = gmac
	}
	ch, err := NewCacheRequestGenerator(gen, gw, cache).GenerateRequests(context.Background(), &scan.Range{})
	verifAssert(err == nil, "stage refused a readable file")
	if err != nil {
		return
	}
	var out []*scan.Request
	for rq := range ch {
		out = append(out, rq)
	}
	k := 0
	stopped := false
	for i, c := range cls {
		if k >= len(out) {
			verifAssert(stopped, "entries lost: the stream ended although no bad line allows it to stop")
			break
		}
		rq := out[k]
		k++
		if cause := c13aCause(c); cause != nil {
			verifCover("bad-line")
			verifAssert(rq.Err != nil, "a bad entry produced a probe instead of an error")
			if rq.Err != nil {
				verifAssert(errors.Is(rq.Err, cause) || strings.Contains(rq.Err.Error(), cause.Error()), "error record does not state the cause of its line (replaced by the ARP-cache stage?)")
			}
			stopped = true
			continue
		}
		stopped = false
		verifAssert(rq.DstIP.Equal(net.IPv4(10, 0, 0, byte(1+i))) && rq.DstPort == uint16(81+i), "probe is not the entry of its own line")
		switch {
		case inCache:
			verifAssert(rq.Err == nil && string(rq.DstMAC) == string(emac), "probe not addressed to its cache entry")
		case hasGW:
			verifAssert(rq.Err == nil && string(rq.DstMAC) == string(gmac), "probe not addressed to the gateway")
		default:
			verifCover("no-mac")
			verifAssert(rq.Err != nil && strings.Contains(rq.Err.Error(), "no destination MAC"), "no MAC known: not reported as such")
		}
	}
	verifAssert(k >= len(out), "more requests than file entries")
	verifCover("done")
}

// ---- C11: cache loader ----

var c11Lines = [9]string{
	`{"ip":"10.0.0.%","mac":"00:11:22:33:44:0%","vendor":"x"}`,      // valid
	`{"ip":"10.0.0.%","mac":"00:11:22:33:44:1%","vendor":"","x":1}`, // valid, unknown extra field
	`{"ip":"::ffff:10.0.0.%","mac":"00:11:22:33:44:2%"}`,            // valid, 16-byte spelling
	`{"ip":"10.0.0.1","mac":"00:11:22:33:44:3%"}`,                   // valid, always address .1 (duplicates)
	`{"ip":"10.0.0.%"}`,                        // no mac
	`{"ip":"10.0.0.%","mac":null}`,             // null mac
	`{"mac":"00:11:22:33:44:6%"}`,              // no ip
	`{"ip":"10.0.0.%","mac":"00:11:22:33:44"}`, // bad mac
	`{"ip":"fe80::a00:%","mac":"00:11:22:33:44:8%"}`, // valid IPv6 line whose last 32 bits spell 10.0.0.%: another host
}

func c11LineIP(c, i int) net.IP {
	if c == 3 {
		return net.IPv4(10, 0, 0, 1)
	}
	if c == 8 {
		return net.ParseIP("fe80::a00:" + string(rune('1'+i)))
	}
	return net.IPv4(10, 0, 0, byte(1+i))
}

// VerifH_C11_fillCache: every cache file of K lines over 9 line classes: the loader either refuses
// the file or maps each address to the MAC printed on its own (last) line.
func VerifH_C11_fillCache() {
	K := verifParam("K", 2)
	cls := make([]int, K)
	var sb strings.Builder
	for i := range cls {
		c := ndU8("class")
		verifAssume(c < 9)
		cls[i] = int(verifConcretize(uint64(c)))
		sb.WriteString(strings.ReplaceAll(c11Lines[cls[i]], "%", string(rune('1'+i))))
		sb.WriteString("\n")
	}
	cache := NewCache()
	err := FillCache(cache, strings.NewReader(sb.String()))
	want := map[string]string{}
	bad := false
	for i, c := range cls {
		if c >= 4 && c <= 7 {
			bad = true
			break
		}
		mac := "00:11:22:33:44:" + string(rune('0'+c)) + string(rune('1'+i))
		want[c11LineIP(c, i).String()] = mac
	}
	if bad {
		verifCover("refused")
		verifAssert(err != nil, "a cache file with a line lacking a usable address or MAC was accepted")
	} else {
		verifCover("accepted")
		verifAssert(err == nil, "a well-formed cache file (as printed by the ARP scan) was refused")
	}
	for i, c := range cls {
		ip := c11LineIP(c, i)
		got := cache.Get(ip)
		if w, ok := want[ip.String()]; ok {
			verifAssert(got != nil && got.String() == w, "address not mapped to the MAC of its own (last) line")
		} else {
			verifAssert(got == nil, "an address from an unusable line was mapped to some MAC (a neighbour's?)")
		}
		// both spellings of the address reach the same entry
		if ip.To4() != nil {
			got4 := cache.Get(ip.To4())
			verifAssert(string(got4) == string(got), "4-byte and 16-byte spelling of an address resolve differently")
		}
	}
}

// VerifH_C11_concurrentReaders: two readers and a writer on one cache, every schedule within the
// pre-emption bound (heap stores are pre-emption points): a reader gets its own entry.
func VerifH_C11_concurrentReaders() {
	cache := NewCache()
	ipA, ipB, ipC := net.IPv4(10, 0, 0, 1), net.IPv4(10, 0, 0, 2).To4(), net.IPv4(10, 0, 0, 3)
	mA, mB, mC := net.HardwareAddr{1, 1, 1, 1, 1, 1}, net.HardwareAddr{2, 2, 2, 2, 2, 2}, net.HardwareAddr{3, 3, 3, 3, 3, 3}
	cache.Put(ipA, mA)
	cache.Put(ipB, mB)
	done := make(chan string, 5)
	go func() { done <- "A:" + string(cache.Get(ipA)) }()
	go func() { done <- "B:" + string(cache.Get(ipB)) }()
	go func() { cache.Put(ipC, mC); done <- "C:" + string(cache.Get(ipC)) }()
	// two more readers: more reader pairs that nothing orders (the native replay relies on the race
	// detector seeing two unordered accesses; under load a single pair was once serialised through the writer)
	go func() { done <- "B:" + string(cache.Get(ipB)) }()
	go func() { done <- "A:" + string(cache.Get(ipA)) }()
	for i := 0; i < 5; i++ {
		r := <-done
		switch r[0] {
		case 'A':
			verifAssert(r[2:] == string(mA), "concurrent reader of A got another host's MAC (or none)")
		case 'B':
			verifAssert(r[2:] == string(mB), "concurrent reader of B got another host's MAC (or none)")
		case 'C':
			verifAssert(r[2:] == string(mC), "writer does not read back its own entry")
		}
	}
	verifCover("done")
}

// VerifH_C11_roundTrip: an ARP reply with any sender IPv4 address and any MAC of a fixed vendor
// prefix -> the real processor -> the real JSON encoder -> newline -> the real cache loader ->
// Get: the printed address maps to the printed MAC; a second reply for the same address wins.
func VerifH_C11_roundTrip() {
	res := &c06Results{}
	sm := NewScanMethod(nil, res)
	frame := func(label string, ip []byte) []byte {
		f := append([]byte{}, c06ValidARP...)
		mac := ndBytes(label, 1)
		f[27], f[11] = mac[0], mac[0] // sender MAC: vendor prefix 00:0c:29, host part 04:05:xx with any last byte
		// (every symbolic hex digit doubles the paths of the MAC parser: digit or letter)
		copy(f[28:32], ip)
		return f[:len(f):len(f)]
	}
	ip := ndBytes("ip", 4)
	// the decimal rendering forks on the digit count of every octet: SHAPE selects a region
	digits := func(b byte, n int) bool {
		switch n {
		case 1:
			return b < 10
		case 2:
			return b >= 10 && b < 100
		}
		return b >= 100
	}
	switch sh := verifParam("SHAPE", 0); {
	case sh >= 1 && sh <= 3:
		for _, b := range ip {
			verifAssume(digits(b, sh))
		}
	case sh >= 4 && sh <= 6:
		verifAssume(digits(ip[0], sh-3))
	}
	f1, f2 := frame("mac1", ip), frame("mac2", ip)
	var text []byte
	for _, f := range [][]byte{f1, f2} {
		res.got = nil
		err := sm.ProcessPacketData(f, nil)
		verifAssert(err == nil && len(res.got) == 1, "valid ARP reply not reported")
		if len(res.got) != 1 {
			return
		}
		line, merr := res.got[0].MarshalJSON()
		verifAssert(merr == nil, "ARP result cannot be encoded")
		text = append(append(text, line...), '\n')
	}
	cache := NewCache()
	err := FillCache(cache, strings.NewReader(string(text)))
	verifAssert(err == nil, "the cache loader refuses lines printed by the ARP scan")
	if err != nil {
		return
	}
	got := cache.Get(net.IP(ip))
	verifAssert(len(got) == 6 && c11Same(got, f2[22:28]), "the printed address does not map to the MAC of its last line")
	got16 := cache.Get(net.IPv4(ip[0], ip[1], ip[2], ip[3]))
	verifAssert(len(got16) == 6 && c11Same(got16, f2[22:28]), "16-byte spelling of the address resolves differently")
	verifCover("done")
}
