package scan

import "context"

// API-only obligations for C04: nothing here touches the iterator's fields or the group table, so these
// stay decidable when the representation changes (R8C04-b turned the big.Int fields into int64 and every
// field-level harness stopped compiling, i.e. went INCONCLUSIVE).

var (
	c04aDraws [][2]int64
	c04aCur   int
	c04aCalls int
)

func verifSeamA_Int63() int64 {
	v := c04aDraws[c04aCur][c04aCalls%2]
	c04aCalls++
	return v
}

// VerifH_C04_apiLarge: for range sizes served by the large groups (up to 2^32 and the sizes just below the
// refusal limit) and fixed draw pairs, the first STEPS numbers the iterator delivers are within 1..n and
// pairwise distinct and the walk does not stop early.  Concrete execution; the draws reach the code through
// the seam on rand.Int63.
func VerifH_C04_apiLarge() {
	steps := verifParam("STEPS", 300)
	sizes := []int64{1 << 32, 1<<31 + 11, 1<<32 - 12345, 1<<32 + 60, 1 << 31, 1<<24 + 1, 65537, 1 << 20}
	n := sizes[verifParam("SIZE", 0)]
	c04aDraws = [][2]int64{{0, 0}, {1, 5}, {1<<62 + 12345, 1<<61 + 999}, {987654321987, 123456789123456}, {1<<63 - 1, 1<<63 - 2}, {7, 1 << 40}}
	for d := range c04aDraws {
		c04aCur, c04aCalls = d, 0
		it, err := newRangeIterator(n)
		verifAssert(err == nil && it != nil, "valid range size refused")
		if err != nil || it == nil {
			return
		}
		seen := map[int64]bool{}
		for s := 0; s < steps; s++ {
			x := it.Int()
			verifAssert(x.IsInt64() && x.Int64() >= 1 && x.Int64() <= n, "iterator value outside 1..n")
			verifAssert(!seen[x.Int64()], "iterator repeated a value")
			seen[x.Int64()] = true
			if !it.Next() {
				verifAssert(false, "iterator stopped early")
				break
			}
		}
	}
	verifCover("done")
}

// VerifH_C04_apiSmall: complete walks of small ranges through the API only, fixed draw pairs: a permutation
// of 1..n, then Next stays false.
func VerifH_C04_apiSmall() {
	c04aDraws = [][2]int64{{0, 0}, {1, 5}, {1<<62 + 12345, 1<<61 + 999}, {1<<63 - 1, 1<<63 - 2}}
	for n := int64(1); n <= int64(verifParam("MAXN", 70)); n++ {
		for d := range c04aDraws {
			c04aCur, c04aCalls = d, 0
			it, err := newRangeIterator(n)
			verifAssert(err == nil && it != nil, "valid range size refused")
			if err != nil || it == nil {
				return
			}
			seen := make([]bool, n+1)
			count := int64(0)
			for {
				v := it.Int().Int64()
				verifAssert(v >= 1 && v <= n && !seen[v], "iterator value outside 1..n or repeated")
				if v >= 1 && v <= n {
					seen[v] = true
				}
				count++
				if count > n+2 || !it.Next() {
					break
				}
			}
			verifAssert(count == n, "iterator did not deliver exactly n values")
			verifAssert(!it.Next(), "Next became true again after the end")
		}
	}
	for _, bad := range []int64{0, -1, 1<<32 + 61, 1 << 40, -1 << 63} {
		_, err := newRangeIterator(bad)
		verifAssert(err != nil, "range size outside 1..2^32+60 accepted")
	}
	verifCover("done")
}

// VerifH_C01_portgenReal: the real port generator with the REAL iterator (no seam; the engine's fixed
// random draws) on port lists with several ranges of equal size, single ports, touching and repeated ranges:
// the ports delivered are exactly the denoted multiset, range by range.  Also two calls of Ports on one
// generator (one per engine run).  Concrete execution.
func VerifH_C01_portgenReal() {
	lists := [][]*PortRange{
		{{StartPort: 20, EndPort: 25}, {StartPort: 80, EndPort: 85}, {StartPort: 443, EndPort: 443}, {StartPort: 8080, EndPort: 8080}},
		{{StartPort: 1, EndPort: 3}, {StartPort: 1, EndPort: 3}, {StartPort: 4, EndPort: 6}},
		{{StartPort: 65530, EndPort: 65535}, {StartPort: 0, EndPort: 5}, {StartPort: 100, EndPort: 105}},
		{{StartPort: 7, EndPort: 7}, {StartPort: 7, EndPort: 7}},
	}
	prs := lists[verifParam("LIST", 0)]
	pg := NewPortGenerator()
	for call := 0; call < 2; call++ {
		ch, err := pg.Ports(context.Background(), &Range{Ports: prs})
		verifAssert(err == nil, "valid port ranges refused")
		if err != nil {
			return
		}
		var got []uint16
		for g := range ch {
			p, gerr := g.GetPort()
			verifAssert(gerr == nil, "port generator produced an error element for a valid range")
			got = append(got, p)
		}
		k := 0
		for _, r := range prs {
			n := int(r.EndPort) - int(r.StartPort) + 1
			seen := make([]bool, n)
			for j := 0; j < n; j++ {
				if k >= len(got) {
					verifAssert(false, "fewer ports delivered than the ranges denote")
					return
				}
				p := got[k]
				k++
				verifAssert(p >= r.StartPort && p <= r.EndPort && !seen[int(p)-int(r.StartPort)], "a port outside its range, or delivered twice within a range")
				if p >= r.StartPort && p <= r.EndPort {
					seen[int(p)-int(r.StartPort)] = true
				}
			}
		}
		verifAssert(k == len(got), "more ports delivered than the ranges denote")
	}
	verifCover("done")
}
