package socks5

import "time"

// VerifTimeouts exposes the two time-outs a Scanner was built with (support file for C09.wireTimeout).
func VerifTimeouts(s *Scanner) (dial, data time.Duration) { return s.dialer.Timeout, s.dataTimeout }
