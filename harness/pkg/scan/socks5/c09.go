package socks5

import (
	"context"
	"errors"
	"io"
	"net"
	"time"

	"github.com/v-byte-cpu/sx/pkg/scan"
)

// ---- a scripted TCP peer behind the dial seam ----

type c09Timeout struct{}

func (c09Timeout) Error() string   { return "i/o timeout" }
func (c09Timeout) Timeout() bool   { return true }
func (c09Timeout) Temporary() bool { return true }

var (
	errC09Closed = errors.New("use of closed network connection")
	errC09Reset  = errors.New("connection reset by peer")
	errC09Dial   = errors.New("connection refused")
)

type c09Conn struct {
	closedCh chan struct{}
	closed   int
	rdl, wdl time.Time
	rdlSet   bool
	wdlSet   bool
	writes   [][]byte
	reads    int
	// script
	writeMode int      // 0 ok, 1 error, 2 stall until deadline/close
	readModes []int    // per read call: 0 data, 1 EOF, 2 timeout(stall), 3 reset
	chunks    [][]byte // data returned by the k-th data read
	nchunk    int
	violation string
	timeout   time.Duration
	lingerErr bool
	lingerSet int
	latency   time.Duration // data of a data read arrives this long after the read started (< data timeout)
}

func (c *c09Conn) note(msg string) {
	if c.violation == "" {
		c.violation = msg
	}
}

func (c *c09Conn) stall(dl time.Time, set bool) error {
	if !set {
		c.note("a blocking operation was started without a deadline")
		<-c.closedCh
		return errC09Closed
	}
	d := time.Until(dl)
	select {
	case <-c.closedCh:
		return errC09Closed
	case <-time.After(d):
		return c09Timeout{}
	}
}

func (c *c09Conn) Read(p []byte) (int, error) {
	if c.closed > 0 {
		return 0, errC09Closed
	}
	k := c.reads
	c.reads++
	if !c.rdlSet || c.rdl.Sub(time.Now()) != c.timeout {
		c.note("read without a fresh deadline of now + data timeout")
	}
	if !c.rdl.After(time.Now()) {
		return 0, c09Timeout{} // a deadline that has already passed fails the operation at once
	}
	c.rdlSet = false
	mode := 2
	if k < len(c.readModes) {
		mode = c.readModes[k]
	}
	switch mode {
	case 0:
		if c.nchunk < len(c.chunks) {
			if c.latency > 0 {
				select {
				case <-c.closedCh:
					return 0, errC09Closed
				case <-time.After(c.latency):
				}
			}
			ch := c.chunks[c.nchunk]
			c.nchunk++
			n := copy(p, ch)
			return n, nil
		}
		return 0, c.stall(c.rdl, true)
	case 1:
		return 0, io.EOF
	case 3:
		return 0, errC09Reset
	}
	c.rdlSet = true
	return 0, c.stall(c.rdl, true)
}

func (c *c09Conn) Write(p []byte) (int, error) {
	if c.closed > 0 {
		return 0, errC09Closed
	}
	if !c.wdlSet || c.wdl.Sub(time.Now()) != c.timeout {
		c.note("write without a fresh deadline of now + data timeout")
	}
	if c.wdlSet && !c.wdl.After(time.Now()) {
		return 0, c09Timeout{}
	}
	c.writes = append(c.writes, append([]byte{}, p...))
	switch c.writeMode {
	case 1:
		return 0, errC09Reset
	case 2:
		return 0, c.stall(c.wdl, c.wdlSet)
	}
	c.wdlSet = false
	return len(p), nil
}

func (c *c09Conn) Close() error {
	c.closed++
	if c.closed == 1 {
		close(c.closedCh)
	}
	return nil
}
func (c *c09Conn) LocalAddr() net.Addr  { return nil }
func (c *c09Conn) RemoteAddr() net.Addr { return nil }
func (c *c09Conn) SetDeadline(t time.Time) error {
	c.rdl, c.wdl, c.rdlSet, c.wdlSet = t, t, true, true
	return nil
}
func (c *c09Conn) SetReadDeadline(t time.Time) error  { c.rdl, c.rdlSet = t, true; return nil }
func (c *c09Conn) SetWriteDeadline(t time.Time) error { c.wdl, c.wdlSet = t, true; return nil }

var (
	c09Peer      *c09Conn
	c09DialMode  int // 0 connect, 1 refused, 2 never answers (until dial timeout or cancel)
	c09DialAddr  string
	c09DialCalls int
	c09DialLatency time.Duration
	c09Connected   bool
)

func c09Dial(d *net.Dialer, ctx context.Context, honourCtx bool, network, addr string) (net.Conn, error) {
	c09DialCalls++
	c09DialAddr = addr
	switch c09DialMode {
	case 1:
		return nil, errC09Dial
	case 2:
		var done <-chan struct{}
		if honourCtx {
			done = ctx.Done()
		}
		select {
		case <-done:
			return nil, context.Canceled
		case <-time.After(d.Timeout):
			return nil, c09Timeout{}
		}
	}
	if c09DialLatency > 0 {
		var done <-chan struct{}
		if honourCtx {
			done = ctx.Done()
		}
		select {
		case <-done:
			return nil, context.Canceled
		case <-time.After(c09DialLatency):
		}
	}
	c09Connected = true
	return c09Peer, nil
}

func verifSeam_DialContext(d *net.Dialer, ctx context.Context, network, addr string) (net.Conn, error) {
	return c09Dial(d, ctx, true, network, addr)
}

// a Dialer.Dial call cannot see the scan context
func verifSeam_Dial(d *net.Dialer, network, addr string) (net.Conn, error) {
	return c09Dial(d, context.Background(), false, network, addr)
}

func verifSeam_SetLinger(c net.Conn, sec int) error {
	p := c.(*c09Conn)
	p.lingerSet++
	if p.lingerErr {
		return errC09Reset
	}
	return nil
}

func c09Choice(label string, n uint8) int {
	v := ndU8(label)
	verifAssume(v < n)
	return int(verifConcretize(uint64(v)))
}

// VerifH_C09_probe: every server behaviour of the script: dial ok/refused/silent; linger ok/error;
// write ok/error/stall; up to three reads, each data (1 or 2 solver-chosen bytes) / EOF / stall /
// reset; optional cancellation at a chosen instant.
func VerifH_C09_probe() {
	// TIMEOUTS 0: connect and data timeouts 2 s / 2 s; 1: 1 s / 2 s; 2: 3 s / 1 s; 3: 1 s / 0
	tsel := verifParam("TIMEOUTS", 0)
	dialT := []time.Duration{2 * time.Second, time.Second, 3 * time.Second, time.Second}[tsel]
	dataT := []time.Duration{2 * time.Second, 2 * time.Second, time.Second, 0}[tsel] // 3: data timeout 0 = every operation times out at once
	verifNow()
	c09DialCalls, c09Connected = 0, false
	c09DialMode = c09Choice("dial", 3)
	c09DialLatency = []time.Duration{0, dialT - time.Millisecond}[c09Choice("dialLatency", 2)]
	peer := &c09Conn{closedCh: make(chan struct{}), timeout: dataT}
	peer.latency = []time.Duration{0, dataT - time.Millisecond}[c09Choice("replyLatency", 2)]
	if peer.latency < 0 {
		peer.latency = 0
	}
	c09Peer = peer
	peer.lingerErr = ndBool("lingerFails")
	peer.writeMode = c09Choice("write", 3)
	reply := ndBytes("reply", 2)
	split := ndBool("splitReply")
	if split {
		peer.chunks = [][]byte{reply[:1], reply[1:]}
	} else {
		peer.chunks = [][]byte{reply}
	}
	for k := 0; k < 3; k++ {
		peer.readModes = append(peer.readModes, c09Choice("read", 4))
	}
	cancelAt := time.Duration(-1)
	if ndBool("cancel") {
		cancelAt = []time.Duration{0, time.Second, 3 * time.Second, 5 * time.Second}[c09Choice("cancelAt", 4)]
	}
	ctx, cancel := context.WithCancel(context.Background())
	defer cancel()
	if cancelAt >= 0 {
		go func() {
			if cancelAt > 0 {
				time.Sleep(cancelAt)
			}
			cancel()
		}()
	}
	dst := net.IPv4(10, 1, 2, 3)
	s := NewScanner(WithDialTimeout(dialT), WithDataTimeout(dataT))
	res, err := s.Scan(ctx, &scan.Request{DstIP: dst, DstPort: 1080})
	end := time.Duration(verifNow())
	verifAssert(c09DialCalls == 1 && c09DialAddr == "10.1.2.3:1080", "not exactly one connection to the target address and port")
	verifAssert(peer.violation == "", peer.violation)
	// time bound: connect + one write + at most two reads, each within its time-out
	verifAssert(end <= dialT+3*dataT, "probe exceeded connect timeout + three data timeouts")
	if cancelAt >= 0 {
		verifCover("cancelled")
		verifAssert(end <= cancelAt+time.Millisecond || end <= time.Millisecond, "probe did not end promptly after the scan was cancelled")
	}
	connected := c09Connected
	verifAssert(connected || c09DialMode != 0 || cancelAt >= 0, "connection attempt abandoned although the server accepts within the connect timeout")
	if connected {
		verifAssert(peer.closed >= 1, "connection not closed")
		verifAssert(peer.lingerSet == 1, "linger not configured exactly once")
	}
	verifAssert(len(peer.writes) <= 1 && peer.reads <= 2, "more than one write or more than two reads")
	for _, w := range peer.writes {
		verifAssert(len(w) == 3 && w[0] == 5 && w[1] == 1 && w[2] == 0, "greeting is not 05 01 00")
	}
	// did the server answer 05 00 as the first two bytes?
	got := 0
	answered := connected && !peer.lingerErr && peer.writeMode == 0 && dataT > 0
	if answered {
		for k := 0; k < 2 && got < 2; k++ {
			if peer.readModes[k] != 0 {
				break
			}
			if split {
				got++
			} else {
				got = 2
			}
		}
	}
	full := answered && got == 2
	if res != nil {
		verifCover("reported")
		verifAssert(err == nil, "a record together with an error")
		verifAssert(full && reply[0] == 5 && reply[1] == 0, "reported as SOCKS5 proxy although the first two reply bytes are not 05 00 (or were never received)")
		r := res.(*ScanResult)
		verifAssert(r.IP == "10.1.2.3" && r.Port == 1080 && r.Version == 5, "record does not carry the probed address and port")
	} else {
		verifCover("not-reported")
		if cancelAt < 0 {
			verifAssert(!(full && reply[0] == 5 && reply[1] == 0), "server answered 05 00 but was not reported")
		}
	}
}

// VerifH_C09_twoProbes: two proxies found by the same scanner one after the other (solver-chosen
// addresses and ports): the first record still carries the first probe's address and port after
// the second probe has been made (records are not shared between probes).
func VerifH_C09_twoProbes() {
	verifNow()
	s := NewScanner(WithDialTimeout(time.Second), WithDataTimeout(time.Second))
	var recs []*ScanResult
	a := ndBytes("addr", 2)
	ports := []uint16{ndU16("port0"), ndU16("port1")}
	for k := 0; k < 2; k++ {
		c09DialCalls, c09Connected, c09DialMode, c09DialLatency = 0, false, 0, 0
		peer := &c09Conn{closedCh: make(chan struct{}), timeout: time.Second}
		peer.chunks = [][]byte{{5, 0}}
		peer.readModes = []int{0, 0, 0}
		c09Peer = peer
		res, err := s.Scan(context.Background(), &scan.Request{DstIP: net.IPv4(10, 1, 2, a[k]), DstPort: ports[k]})
		verifAssert(err == nil && res != nil, "a server answering 05 00 was not reported")
		if r, ok := res.(*ScanResult); ok {
			recs = append(recs, r)
		}
	}
	if len(recs) == 2 {
		verifAssert(recs[0].IP == net.IPv4(10, 1, 2, a[0]).String() && recs[0].Port == ports[0], "the first record changed when the second proxy was found (shared record)")
		verifAssert(recs[1].IP == net.IPv4(10, 1, 2, a[1]).String() && recs[1].Port == ports[1], "the second record does not carry its own probe's address and port")
	}
	verifCover("done")
}

// VerifH_C09_afterHit: a genuine proxy is found first; then the same scanner probes a server that
// closes, resets, stalls or answers with solver-chosen bytes: the second verdict depends on the second
// server's own reply only (nothing remembered from the first probe, e.g. in a recycled reply object).
func VerifH_C09_afterHit() {
	verifNow()
	s := NewScanner(WithDialTimeout(time.Second), WithDataTimeout(time.Second))
	c09DialCalls, c09Connected, c09DialMode, c09DialLatency = 0, false, 0, 0
	peer := &c09Conn{closedCh: make(chan struct{}), timeout: time.Second}
	peer.chunks = [][]byte{{5, 0}}
	peer.readModes = []int{0, 0, 0}
	c09Peer = peer
	res, err := s.Scan(context.Background(), &scan.Request{DstIP: net.IPv4(10, 1, 2, 3), DstPort: 1080})
	verifAssert(err == nil && res != nil, "a server answering 05 00 was not reported")
	// second server
	c09DialCalls, c09Connected = 0, false
	peer2 := &c09Conn{closedCh: make(chan struct{}), timeout: time.Second}
	reply := ndBytes("reply", 2)
	nbytes := c09Choice("replyBytes", 3) // the server sends 0, 1 or 2 bytes, then behaves as `then`
	then := []int{1, 2, 3}[c09Choice("then", 3)] // EOF, stall, reset
	if nbytes > 0 {
		peer2.chunks = [][]byte{reply[:nbytes]}
		peer2.readModes = []int{0, then, then}
	} else {
		peer2.readModes = []int{then, then, then}
	}
	c09Peer = peer2
	res2, err2 := s.Scan(context.Background(), &scan.Request{DstIP: net.IPv4(10, 1, 2, 4), DstPort: 1081})
	full := nbytes == 2 && reply[0] == 5 && reply[1] == 0
	if res2 != nil {
		verifCover("reported")
		verifAssert(full, "reported as SOCKS5 proxy although this server never sent 05 00 (verdict remembered from an earlier probe?)")
		verifAssert(err2 == nil, "a record together with an error")
		r := res2.(*ScanResult)
		verifAssert(r.IP == "10.1.2.4" && r.Port == 1081, "record does not carry the probed address and port")
	} else {
		verifCover("not-reported")
		verifAssert(!full, "server answered 05 00 but was not reported")
	}
}
