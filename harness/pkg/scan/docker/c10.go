package docker

import (
	"context"
	"errors"
	"net"
	"time"

	"github.com/docker/docker/api/types"
	moby "github.com/moby/moby/client"
	"github.com/v-byte-cpu/sx/pkg/scan"
)

// ---- the two API calls of the moby client behind seams (docker.Info / docker.ServerVersion) ----
// The client itself is built by the real moby.NewClientWithOpts; where it was told to connect is read
// back through an accessor overlaid into the moby client package.

type c10Call struct {
	what                      string
	hasDL                     bool
	dl                        time.Duration
	scheme, host, proto, addr string
}

type c10Script struct {
	mode    int // 0 answers, 1 fails, 2 stalls until its context ends
	latency time.Duration
}

var (
	c10Calls   []c10Call
	c10Scripts [2]c10Script
	c10Picked  [2]bool
	c10DataT   time.Duration
	c10Ok      [2]bool // the k-th exchange really returned its data
)

var errC10 = errors.New("error during connect: connection refused")

func c10Choice(label string, n uint8) int {
	v := ndU8(label)
	verifAssume(v < n)
	return int(verifConcretize(uint64(v)))
}

func c10Exchange(k int, what string, cl *moby.Client, ctx context.Context) error {
	c := c10Call{what: what}
	if dl, ok := ctx.Deadline(); ok {
		c.hasDL, c.dl = true, time.Until(dl)
	}
	if cl != nil {
		c.scheme, c.host, c.proto, c.addr = moby.VerifTarget(cl)
	}
	c10Calls = append(c10Calls, c)
	if !c10Picked[k] {
		c10Picked[k] = true
		c10Scripts[k].mode = c10Choice(what+".mode", 3)
		c10Scripts[k].latency = []time.Duration{0, c10DataT - time.Millisecond, c10DataT / 2}[c10Choice(what+".latency", 3)]
	}
	sc := c10Scripts[k]
	if err := ctx.Err(); err != nil {
		return err
	}
	if sc.latency > 0 {
		select {
		case <-ctx.Done():
			return ctx.Err()
		case <-time.After(sc.latency):
		}
	}
	switch sc.mode {
	case 1:
		return errC10
	case 2:
		<-ctx.Done()
		return ctx.Err()
	}
	c10Ok[k] = true
	return nil
}

func verifSeam_Info(cl *moby.Client, ctx context.Context) (types.Info, error) {
	if err := c10Exchange(0, "info", cl, ctx); err != nil {
		return types.Info{}, err
	}
	return types.Info{ID: "id-1", Name: "node-1", OperatingSystem: "os"}, nil
}

func verifSeam_ServerVersion(cl *moby.Client, ctx context.Context) (types.Version, error) {
	if err := c10Exchange(1, "version", cl, ctx); err != nil {
		return types.Version{}, err
	}
	return types.Version{Version: "20.10", APIVersion: "1.41"}, nil
}

type c10Target struct {
	ip   net.IP
	port uint16
	host string
}

var c10Targets = []c10Target{
	{net.IPv4(10, 1, 2, 3), 2375, "10.1.2.3:2375"},
	{net.IP{192, 168, 0, 1}, 65535, "192.168.0.1:65535"},
	{net.IPv4(172, 16, 255, 254), 1, "172.16.255.254:1"},
}

func c10Slack() time.Duration {
	if verifSymbolic() {
		return 0
	}
	return 400 * time.Millisecond
}

func c10Check(tgt c10Target, proto string, dataT time.Duration, res scan.Result, err error, took time.Duration, cancelled bool) {
	for _, c := range c10Calls {
		verifAssert(c.hasDL && c.dl <= dataT, "an API call was made without the configured timeout on its context")
		verifAssert(c.scheme == proto, "the client does not use the chosen scheme")
		verifAssert(c.host == "tcp://"+tgt.host && c.proto == "tcp" && c.addr == tgt.host, "the client does not connect to the probed address and port")
	}
	verifAssert(took <= time.Duration(len(c10Calls))*dataT+2*c10Slack() || len(c10Calls) == 0, "probe exceeded its timeout per request")
	primaryOK := c10Ok[0]
	if res != nil {
		verifCover("reported")
		verifAssert(err == nil, "a record together with an error")
		verifAssert(primaryOK && len(c10Calls) >= 1 && c10Calls[0].what == "info", "endpoint reported although its /info call did not succeed")
		r, ok := res.(*ScanResult)
		verifAssert(ok, "record of another type")
		if ok {
			verifAssert(r.ScanType == ScanType && r.Proto == proto && r.Host == "tcp://"+tgt.host, "record does not carry the probed host, port and scheme")
			verifAssert(r.ID() == "tcp://"+tgt.host, "record id is not the probed host")
			verifAssert(r.Info.Name == "node-1" && r.Info.ID == "id-1", "record info is not what the server sent")
			if c10Ok[1] {
				verifAssert(r.Version.Version == "20.10", "record version is not what the server sent")
			} else {
				verifCover("secondary-failed")
				verifAssert(r.Version.Version == "" && r.Version.APIVersion == "", "a failed version request left data in the record")
			}
		}
	} else {
		verifCover("not-reported")
		if !cancelled {
			verifAssert(!primaryOK, "/info succeeded but the endpoint was not reported")
			verifAssert(err != nil, "no record and no error")
		}
	}
}

// VerifH_C10_docker: the real Scanner.Scan with the real moby.NewClientWithOpts against every
// scripted behaviour of the /info and /version calls.
func VerifH_C10_docker() {
	dataT := []time.Duration{2 * time.Second, 10 * time.Second, 300 * time.Millisecond}[verifParam("TIMEOUT", 0)]
	ti := c10Choice("target", uint8(len(c10Targets)))
	proto := []string{"http", "https", "https"}[ti]
	tgt := c10Targets[ti]
	verifNow()
	c10Calls, c10Picked, c10Ok, c10DataT = nil, [2]bool{}, [2]bool{}, dataT
	cancelAt := time.Duration(-1)
	if csel := verifParam("CANCEL", 0); csel > 0 {
		cancelAt = []time.Duration{0, dataT / 2, dataT + dataT/2}[csel-1]
	}
	ctx, cancel := context.WithCancel(context.Background())
	defer cancel()
	if cancelAt >= 0 {
		verifCover("cancelled")
		go func() {
			if cancelAt > 0 {
				time.Sleep(cancelAt)
			}
			cancel()
		}()
	}
	s := NewScanner(proto, WithDataTimeout(dataT))
	start := time.Duration(verifNow())
	res, err := s.Scan(ctx, &scan.Request{DstIP: tgt.ip, DstPort: tgt.port})
	took := time.Duration(verifNow()) - start
	verifAssert(len(c10Calls) >= 1 || cancelAt >= 0, "no API call was made")
	c10Check(tgt, proto, dataT, res, err, took, cancelAt >= 0)
}

// VerifH_C10_dockerTwo: two probes by one scanner: each judged on its own, earlier records unchanged.
func VerifH_C10_dockerTwo() {
	dataT := 2 * time.Second
	verifNow()
	s := NewScanner("http", WithDataTimeout(dataT))
	var recs []*ScanResult
	var tg []c10Target
	for k := 0; k < 2; k++ {
		tgt := c10Targets[c10Choice("target", uint8(len(c10Targets)))]
		c10Calls, c10Picked, c10Ok, c10DataT = nil, [2]bool{}, [2]bool{}, dataT
		start := time.Duration(verifNow())
		res, err := s.Scan(context.Background(), &scan.Request{DstIP: tgt.ip, DstPort: tgt.port})
		c10Check(tgt, "http", dataT, res, err, time.Duration(verifNow())-start, false)
		if r, ok := res.(*ScanResult); ok && r != nil {
			recs = append(recs, r)
			tg = append(tg, tgt)
		}
	}
	for i, r := range recs {
		verifAssert(r.Host == "tcp://"+tg[i].host && r.Info.Name == "node-1", "a record changed when a later probe was made")
	}
	verifCover("done")
}
