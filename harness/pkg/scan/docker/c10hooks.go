package docker

import "time"

// VerifConfig exposes what a Scanner was built with (support file for C10.wire).
func VerifConfig(s *Scanner) (proto string, dataTimeout time.Duration) { return s.proto, s.dataTimeout }
