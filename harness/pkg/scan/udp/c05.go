package udp

import (
	"net"

	"github.com/google/gopacket"
	"github.com/v-byte-cpu/sx/pkg/scan"
)

// VerifH_C05_udp: every option value, address, port, payload of L bytes; both link modes.
func VerifH_C05_udp() {
	vpn := verifParam("VPN", 0) == 1
	L := verifParam("L", 2)
	c05Rand = nil
	ttl, flags := ndU8("ttl"), ndU8("ipflags")
	verifAssume(flags < 8)
	payload := ndBytes("payload", L)
	opts := []PacketFillerOption{WithTTL(ttl), WithIPFlags(flags), WithPayload(payload), WithVPNmode(vpn)}
	protoOverride := verifParam("PROTO", 0) == 1
	proto := uint8(17)
	if protoOverride {
		proto = ndU8("proto")
		opts = append(opts, WithIPProtocol(proto))
	}
	lenOverride := verifParam("LENOV", 0) == 1
	var ovLen uint16
	if lenOverride {
		ovLen = ndU16("length")
		verifAssume(ovLen != 0)
		opts = append(opts, WithIPTotalLength(ovLen))
	}
	f := NewPacketFiller(opts...)
	src, dst4 := ndBytes("src", 4), ndBytes("dst", 4)
	dst := net.IP(dst4)
	if verifParam("DST16", 0) == 1 {
		dst = net.IPv4(dst4[0], dst4[1], dst4[2], dst4[3])
	}
	smac, dmac := ndBytes("smac", 6), ndBytes("dmac", 6)
	dport := ndU16("dport")
	buf := gopacket.NewSerializeBuffer()
	err := f.Fill(buf, &scan.Request{SrcIP: net.IP(src), DstIP: dst, SrcMAC: smac, DstMAC: dmac, DstPort: dport})
	verifAssert(err == nil, "Fill failed for a well-formed request")
	if err != nil {
		return
	}
	dl := 20 + 8 + L
	d := c05Frame(buf.Bytes(), vpn, dl, smac, dmac)
	if d == nil {
		return
	}
	verifAssert(len(c05Rand) == 2, "unexpected number of random draws")
	if len(c05Rand) != 2 {
		return
	}
	tot := dl
	if lenOverride {
		tot = int(ovLen) // an explicit override appears verbatim
	}
	c05IPHeader(d, tot, c05Rand[0], flags, ttl, proto, src, dst4)
	u := d[20:]
	verifAssert(int(c05U16(u[0:2])) == 32768+c05Rand[1] && c05U16(u[0:2]) >= 32768 && c05U16(u[0:2]) <= 60999, "source port outside 32768..60999")
	verifAssert(c05U16(u[2:4]) == dport, "UDP destination port is not the requested port")
	verifAssert(c05Eq(u[8:], payload), "payload bytes differ from the requested payload")
	if !lenOverride {
		verifAssert(int(c05U16(u[4:6])) == 8+L, "UDP length is not header + payload")
		if !protoOverride {
			uz := append([]byte{}, u...)
			uz[6], uz[7] = 0, 0
			ps := append(append(append([]byte{}, src...), dst4...), 0, 17, byte((8+L)>>8), byte(8+L))
			verifAssert(c05U16(u[6:8]) == ^c05Fold(c05Sum(ps)+c05Sum(uz)), "UDP checksum wrong")
		}
	}
	verifCover("done")
}
