package scan

import (
	"math/big"
)

// ---- seams ----

var (
	c04NewInt   []int64
	c04StopAt   int
	c04Draws    []int64
	c04DrawMode int // 0 symbolic, 1 from c04Fixed
	c04Fixed    []int64
)

type c04Stop struct{}

func verifSeam_bigNewInt(x int64) *big.Int {
	c04NewInt = append(c04NewInt, x)
	if c04StopAt > 0 && len(c04NewInt) == c04StopAt {
		panic(c04Stop{})
	}
	return big.NewInt(x)
}

func verifSeam_Int63() int64 {
	var v int64
	if c04DrawMode == 1 {
		v = c04Fixed[len(c04Draws)%len(c04Fixed)]
	} else {
		v = int64(ndU64("rand.Int63"))
		verifAssume(v >= 0)
	}
	c04Draws = append(c04Draws, v)
	return v
}

// VerifH_C04_select: for every int64 n the group chosen is the first table row with P > n,
// sizes outside 1..2^32+60 are refused, and the table is strictly increasing.
func VerifH_C04_select() {
	for i := 1; i < len(cyclicGroups); i++ {
		verifAssert(cyclicGroups[i-1].P < cyclicGroups[i].P, "group table not strictly increasing")
	}
	last := cyclicGroups[len(cyclicGroups)-1].P
	verifAssert(last == 1<<32+61, "largest group is not 2^32+61")
	n := int64(ndU64("n"))
	c04NewInt, c04StopAt = nil, 3
	var it *rangeIterator
	var err error
	stopped := false
	func() {
		defer func() {
			if p := recover(); p != nil {
				if _, ok := p.(c04Stop); !ok {
					panic(p)
				}
				stopped = true
			}
		}()
		it, err = newRangeIterator(n)
	}()
	if n <= 0 || n >= last {
		verifCover("refused")
		verifAssert(!stopped && err != nil && it == nil, "range size outside 1..2^32+60 not refused")
		return
	}
	verifCover("selected")
	verifAssert(stopped && len(c04NewInt) == 3, "valid range size refused")
	if !stopped {
		return
	}
	P, G, N := c04NewInt[0], c04NewInt[1], c04NewInt[2]
	// P is the smallest table prime greater than n, and G, N are that row's
	ok := false
	for i, g := range cyclicGroups {
		if g.P > n && (i == 0 || cyclicGroups[i-1].P <= n) {
			ok = verifAnd(P == g.P, verifAnd(G == g.G, N == g.N))
		}
	}
	verifAssert(ok, "selected group is not the first row with P > n")
}

func c04MulMod(a, b, m uint64) uint64 {
	var r big.Int
	r.Mul(new(big.Int).SetUint64(a), new(big.Int).SetUint64(b))
	r.Mod(&r, new(big.Int).SetUint64(m))
	return r.Uint64()
}

func c04PowMod(b, e, m uint64) uint64 {
	r := uint64(1)
	b %= m
	for ; e > 0; e >>= 1 {
		if e&1 == 1 {
			r = c04MulMod(r, b, m)
		}
		b = c04MulMod(b, b, m)
	}
	return r
}

// c04PrimeBySolver: no divisor d with 2 <= d, d*d <= p (decided by the solver for all d at once).
func c04PrimeBySolver(p uint64, what string) {
	d := ndU64("d")
	verifAssume(d >= 2 && d <= 65537 && d*d <= p)
	verifAssert(p%d != 0, what)
}

// VerifH_C04_row: number theory of table row ROW: P prime, G generates (Z/P)*, gcd(N, P-1) = 1.
func VerifH_C04_row() {
	row := verifParam("ROW", 0)
	g := cyclicGroups[row]
	P, G, N := uint64(g.P), uint64(g.G), uint64(g.N)
	verifAssert(P > uint64(1)<<uint(row+1), "row prime is not above 2^(row+1): a range size would have no group")
	if row > 0 {
		verifAssert(uint64(cyclicGroups[row-1].P) < uint64(1)<<uint(row+1)+64, "previous prime too far below this row's power of two")
	}
	c04PrimeBySolver(P, "table modulus P is not prime")
	// factor P-1 by trial division (concrete), then every factor is certified prime by the solver
	var fs []uint64
	m := P - 1
	for d := uint64(2); d*d <= m; d++ {
		if m%d == 0 {
			fs = append(fs, d)
			for m%d == 0 {
				m /= d
			}
		}
	}
	if m > 1 {
		fs = append(fs, m)
	}
	prod := uint64(1)
	rest := P - 1
	for _, q := range fs {
		for rest%q == 0 {
			rest /= q
			prod *= q
		}
	}
	verifAssert(prod == P-1 && rest == 1, "factorisation of P-1 incomplete")
	verifAssert(c04PowMod(G, P-1, P) == 1, "G^(P-1) mod P != 1")
	for _, q := range fs {
		verifAssert(c04PowMod(G, (P-1)/q, P) != 1, "G is not a generator of (Z/P)*: its order divides (P-1)/q")
		verifAssert(N%q != 0, "N is not coprime with P-1: randomised generators would not generate the group")
	}
	verifAssert(N >= 1 && G >= 2 && G < P, "row constants out of range")
	verifCover("done")
}

// VerifH_C04_rowFactors: the prime factors of P-1 used by VerifH_C04_row are prime (solver).
func VerifH_C04_rowFactors() {
	row := verifParam("ROW", 0)
	P := uint64(cyclicGroups[row].P)
	m := P - 1
	k := 0
	for d := uint64(2); d*d <= m; d++ {
		if m%d == 0 {
			for m%d == 0 {
				m /= d
			}
			k++
		}
	}
	if m > 1 {
		// the only factor that can exceed 65536: certify it
		c04PrimeBySolver(m, "large cofactor of P-1 is not prime")
	}
	verifCover("done")
}

// VerifH_C04_walk: the real iterator on a small range: for every pair of random draws the
// emitted sequence is a permutation of 1..n, then Next stays false.
func VerifH_C04_walk() {
	n := int64(verifParam("N", 4))
	c04Draws, c04DrawMode, c04StopAt = nil, 0, 0
	it, err := newRangeIterator(n)
	verifAssert(err == nil && it != nil, "valid range size refused")
	if err != nil {
		return
	}
	seen := make([]bool, n+1)
	count := int64(0)
	for {
		v := it.Int().Int64()
		verifAssert(v >= 1 && v <= n, "iterator value outside 1..n")
		if v >= 1 && v <= n {
			verifAssert(!seen[v], "iterator repeated a value")
			seen[v] = true
		}
		count++
		if count > n+2 {
			verifAssert(false, "iterator does not stop")
			break
		}
		if !it.Next() {
			break
		}
	}
	verifAssert(count == n, "iterator stopped before every value of 1..n was produced")
	verifAssert(!it.Next() && !it.Next(), "Next became true again after the end")
	verifCover("done")
}

// VerifH_C04_largeWalk: rows with P > 2^16 cannot be walked exhaustively; with fixed draws
// (chosen by VERIF_SEED-independent constants covering small and large generators) the first
// STEPS values of the real iterator follow the orbit x -> x*G' mod P computed independently,
// are distinct and in range.  Supplementary evidence by concrete execution (not solver-decided).
func VerifH_C04_largeWalk() {
	row := verifParam("ROW", 16)
	steps := verifParam("STEPS", 200)
	g := cyclicGroups[row]
	P := uint64(g.P)
	n := g.P - 1 - int64(verifParam("BELOW", 0))
	fixed := [][]int64{{0, 0}, {1, 5}, {1<<62 + 12345, 1<<61 + 999}, {987654321987, 123456789123456}, {1<<63 - 1, 1<<63 - 2}, {7, 1 << 40}}
	for _, dr := range fixed {
		c04Draws, c04DrawMode, c04Fixed, c04StopAt = nil, 1, dr, 0
		it, err := newRangeIterator(n)
		verifAssert(err == nil, "valid range size refused")
		if err != nil {
			return
		}
		// independent orbit: G' = G^(N^(r1+1) mod (P-1)) mod P
		e := c04PowMod(uint64(g.N), uint64(dr[0])+1, P-1)
		gp := c04PowMod(uint64(g.G), e, P)
		verifAssert(it.G.Uint64() == gp, "randomised generator is not G^(N^r mod (P-1)) mod P")
		x := it.Int().Uint64()
		prev := map[uint64]bool{}
		for s := 0; s < steps; s++ {
			verifAssert(x >= 1 && int64(x) <= n, "iterator value outside 1..n")
			verifAssert(!prev[x], "iterator repeated a value")
			prev[x] = true
			// reference successor: next orbit element that is <= n
			y := c04MulMod(x, gp, P)
			for int64(y) > n {
				y = c04MulMod(y, gp, P)
			}
			if !it.Next() {
				verifAssert(false, "iterator stopped early")
				break
			}
			x = it.Int().Uint64()
			verifAssert(x == y, "iterator left the orbit x -> x*G' mod P (arithmetic overflow?)")
		}
	}
	verifCover("done")
}

// ---- one step of Next from an arbitrary state ----

var (
	c04StepVals []uint64
	c04StepPos  int
)

// verifSeam_riMod replaces it.I.Mod(it.I, it.P) inside rangeIterator.Next: the next group
// element is whatever the harness chose (the arithmetic itself is the subject of C04.walk /
// C04.largeWalk / C04.row); what is examined here is the stop and range logic around it.
func verifSeam_riMod(z, x, y *big.Int) *big.Int {
	v := c04StepVals[c04StepPos]
	c04StepPos++
	return z.SetUint64(v)
}

// VerifH_C04_step: table row ROW, arbitrary start element s, arbitrary range limit n < P, and
// up to K arbitrary next group elements x1..xK (each in 1..P-1): Next stops iff the walk is
// back at s - compared as whole numbers, also above 2^32 -, skips elements above n, returns
// the first element <= n otherwise, and stays stopped.
func VerifH_C04_step() {
	row := verifParam("ROW", 31)
	K := verifParam("K", 3)
	g := cyclicGroups[row]
	P := uint64(g.P)
	n := ndU64("n")
	s := ndU64("start")
	verifAssume(n >= 1 && n < P && s >= 1 && s <= n)
	c04StepVals, c04StepPos = nil, 0
	for i := 0; i < K; i++ {
		x := ndU64("x")
		verifAssume(x >= 1 && x < P)
		c04StepVals = append(c04StepVals, x)
	}
	last := c04StepVals[K-1]
	verifAssume(last == s || last <= n) // the K-th element ends the step
	it := &rangeIterator{P: big.NewInt(g.P), G: big.NewInt(g.G),
		rangeLimit: new(big.Int).SetUint64(n),
		I:          new(big.Int).SetUint64(s),
		startI:     new(big.Int).SetUint64(s)}
	ok := it.Next()
	// reference
	j := 0
	for j < K-1 && c04StepVals[j] != s && c04StepVals[j] > n {
		j++
	}
	xj := c04StepVals[j]
	verifAssert(c04StepPos == j+1, "Next consumed a different number of group elements than the reference walk")
	if xj == s {
		verifCover("back-at-start")
		verifAssert(!ok, "Next did not stop when the walk returned to its start element")
		verifAssert(!it.Next() && c04StepPos == j+1, "Next became true again (or kept walking) after the end")
	} else {
		verifCover("next-element")
		verifAssert(ok, "Next stopped although the walk is not back at its start element (elements compared partially?)")
		verifAssert(it.Int().IsUint64() && it.Int().Uint64() == xj, "Next does not yield the first group element within the range")
		verifAssert(xj <= n, "Next yielded an element outside 1..n")
	}
}

// VerifH_C04_stepArith: the arithmetic of one step, no seam, on boundary elements: for row ROW,
// current element I and generator G each drawn by the solver from a pool of boundary values
// (1, 2, 3, 2^16+1, 2^31, 2^32-1, 2^32, 2^32+1, (P-1)/2, P-2, P-1, all taken mod P), Next moves
// to (I*G) mod P computed in full width - the product of two 33-bit elements of the top row does
// not fit 64 bits.  (A fully symbolic I and G makes math/big branch on undecidable word
// conditions: tried, inconclusive - see DESIGN.)
func VerifH_C04_stepArith() {
	row := verifParam("ROW", 31)
	g := cyclicGroups[row]
	P := uint64(g.P)
	pool := []uint64{1, 2, 3, 1<<16 + 1, 1 << 31, 1<<32 - 1, 1 << 32, 1<<32 + 1, (P - 1) / 2, P - 2, P - 1}
	pick := func(label string) uint64 {
		k := ndU8(label)
		verifAssume(int(k) < len(pool))
		v := pool[verifConcretize(uint64(k))] % P
		if v == 0 {
			v = 1
		}
		return v
	}
	i, gen := pick("I"), pick("G")
	want := c04MulMod(i, gen, P)
	it := &rangeIterator{P: big.NewInt(g.P), G: new(big.Int).SetUint64(gen),
		rangeLimit: big.NewInt(g.P - 1),
		I:          new(big.Int).SetUint64(i),
		startI:     big.NewInt(0)} // 0 is not a group element: this step never stops
	ok := it.Next()
	verifAssert(ok, "Next stopped although the walk is not back at its start element")
	verifAssert(it.Int().IsUint64() && it.Int().Uint64() == want, "Next does not move to I*G mod P (product truncated to a machine word?)")
	verifCover("done")
}
