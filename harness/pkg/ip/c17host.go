package ip

import (
	"errors"
	"net"

	"github.com/vishvananda/netlink"
)

// VerifIface is one interface of the modelled host network configuration (C17).
type VerifIface struct {
	Iface net.Interface
	Addrs []net.Addr
}

// VerifHost is the host configuration the seams below answer from; the harness fills it.
var VerifHost struct {
	Ifaces  []VerifIface
	Routes  []netlink.Route // the IPv4 main table
	Routes6 []netlink.Route // IPv6 routes: only a dump of another family than AF_INET sees them
}

func verifSeam_Interfaces() ([]net.Interface, error) {
	var out []net.Interface
	for _, i := range VerifHost.Ifaces {
		out = append(out, i.Iface)
	}
	return out, nil
}

func verifSeam_Addrs(i *net.Interface) ([]net.Addr, error) {
	for _, h := range VerifHost.Ifaces {
		if h.Iface.Index == i.Index {
			return h.Addrs, nil
		}
	}
	return nil, errors.New("no such interface")
}

func verifSeam_InterfaceByIndex(idx int) (*net.Interface, error) {
	for _, h := range VerifHost.Ifaces {
		if h.Iface.Index == idx {
			c := h.Iface
			return &c, nil
		}
	}
	return nil, errors.New("no such interface")
}

func verifSeam_RouteList(link netlink.Link, family int) ([]netlink.Route, error) {
	const afInet = 2
	if family == afInet {
		return VerifHost.Routes, nil
	}
	out := append([]netlink.Route{}, VerifHost.Routes6...)
	if family == 0 { // all families
		out = append(out, VerifHost.Routes...)
	}
	return out, nil
}
